#!/usr/bin/env python3
"""tools/mutcampaign.py — a systematic self-test of the checks (analysis aid, not a registered check).

Generates small syntactic changes of /repo's non-test source (comparison flips, off-by-one literals,
boolean swaps, min/max, rounding-mode swaps ...), keeps those that still compile and pass the crate's
own test suite (lib + doc tests), and runs the quick checks of the properties anchored in the changed
file against each survivor.  Everything happens in scratch copies under /tmp/mt (a git worktree of
/repo and a copy of /verif pointed at it through VERIF_REPO), never in /repo or /verif.

  gen    [N] [seed]   enumerate candidate changes, sample N of them -> /tmp/mt/mutants.jsonl
  filter [workers]    run the crate's tests on every candidate       -> /tmp/mt/survivors.jsonl
  check               run the mapped quick checks on every survivor  -> /tmp/mt/results.jsonl
  report              summary (caught by which check / not caught)
  clean               remove the scratch worktrees and copies
"""
import json, os, random, re, shutil, subprocess, sys, time
from concurrent.futures import ThreadPoolExecutor

MT = "/tmp/mt"
REPO = "/repo"
VERIF = "/verif"

FILEMAP = {
    "src/arithmetic/addition.rs": ["C01", "C19"],
    "src/impl_ops_add.rs": ["C01", "C19"], "src/impl_ops_sub.rs": ["C01", "C19"], "src/impl_ops_mul.rs": ["C01", "C19"],
    "src/impl_ops.rs": ["C01", "C08", "C12", "C19"],
    "src/impl_ops_div.rs": ["C08", "C20"], "src/impl_ops_rem.rs": ["C09"],
    "src/impl_cmp.rs": ["C02", "C03", "C19"],
    "src/impl_fmt.rs": ["C04", "C16", "C17", "C20"],
    "src/impl_num.rs": ["C05", "C14", "C15", "C17"],
    "src/impl_convert.rs": ["C14", "C15"], "src/impl_serde.rs": ["C17"], "src/impl_trait_from_str.rs": ["C05"],
    "src/parsing.rs": ["C14"],
    "src/rounding.rs": ["C06", "C07", "C08", "C10", "C11", "C16"],
    "src/context.rs": ["C07", "C08", "C10", "C11", "C12", "C20"],
    "src/arithmetic/mod.rs": ["C01", "C02", "C06", "C07", "C08", "C18", "C10", "C11"],
    "src/arithmetic/sqrt.rs": ["C10", "C20"], "src/arithmetic/cbrt.rs": ["C11", "C20"], "src/arithmetic/inverse.rs": ["C12", "C20"],
}
FNMAP = [  # lib.rs: enclosing function -> properties
    (r"set_scale|take_and_scale|with_scale$|to_owned_with_scale|into_bigint|as_bigint|from_big|new$|fractional_digit|normalized|digits$|count_digits|is_integer|clone_into|to_ref",
     ["C01", "C15", "C18", "C19"]),
    (r"with_scale_round|^round$", ["C06", "C16", "C20"]),
    (r"with_prec|with_precision_round", ["C07", "C12", "C13", "C18"]),
    (r"sqrt", ["C10", "C20"]), (r"cbrt", ["C11", "C20"]), (r"inverse", ["C12", "C20", "C08"]),
    (r"^exp|exp_untrimmed", ["C13", "C20"]), (r"impl_division|^div", ["C08", "C13", "C20"]),
    (r"hash", ["C03"]), (r"double|half|square|cube|abs|neg|signum|is_zero|is_one|sum|product|one$|zero$", ["C01", "C19", "C08"]),
    (r"get_rounding_term|count_decimal|ten_to", ["C06", "C07", "C08", "C18"]),
    (r"from_str_radix|parse", ["C05"]), (r"to_.*|from_.*", ["C14", "C15"]), (r"fmt|write_|scientific|engineering|plain", ["C04", "C16"]),
]
BROAD = ["C01", "C02", "C03", "C06", "C07", "C08", "C09", "C15", "C18", "C19"]


def sh(cmd, cwd=None, env=None, timeout=None):
    import signal
    p = subprocess.Popen(cmd, cwd=cwd, env=env, shell=isinstance(cmd, str), stdout=subprocess.PIPE, stderr=subprocess.STDOUT, text=True,
                         start_new_session=True)
    try:
        out, _ = p.communicate(timeout=timeout)
    except subprocess.TimeoutExpired:
        os.killpg(p.pid, signal.SIGKILL)     # the whole group: a looping test binary must not linger
        p.communicate()
        raise
    return p.returncode, out


def nontest_lines(path):
    """line numbers (0-based) outside #[cfg(test)] items and comments"""
    lines = open(path).read().split("\n")
    ok = [True] * len(lines)
    i = 0
    while i < len(lines):
        if lines[i].strip().startswith("#[cfg(test)]") or lines[i].strip().startswith("#[cfg(all(test"):
            j = i + 1
            # attribute applies to the next item
            while j < len(lines) and lines[j].strip().startswith("#["):
                j += 1
            if j < len(lines) and "{" in lines[j] and "}" not in lines[j]:
                depth = 0
                k = j
                while k < len(lines):
                    code = re.sub(r'"(\\.|[^"\\])*"', '""', lines[k])       # string literals
                    code = re.sub(r"'(\\.|[^'\\])'", "''", code)          # char literals
                    code = code.split("//")[0]
                    depth += code.count("{") - code.count("}")
                    if depth <= 0 and k > j or (k == j and depth == 0):
                        break
                    k += 1
                for t in range(i, min(k + 1, len(lines))):
                    ok[t] = False
                i = k + 1
                continue
            else:
                for t in range(i, min(j + 1, len(lines))):
                    ok[t] = False
                i = j + 1
                continue
        i += 1
    for n, l in enumerate(lines):
        s = l.strip()
        if s.startswith("//") or s.startswith("#[") or "debug_assert" in s or s.startswith("use ") or "unreachable!" in s or "panic!(" in s:
            ok[n] = False
    return lines, ok


def enclosing_fn(lines, n):
    for k in range(n, -1, -1):
        m = re.search(r"\bfn\s+([A-Za-z_0-9]+)", lines[k])
        if m:
            return m.group(1)
    return ""


RULES = [
    ("lt->le", r"(?<=[\w\)\]] )<(?= [\w\(\-&\*])", "<="), ("le->lt", r"(?<=[\w\)\]] )<=(?= [\w\(\-&\*])", "<"),
    ("gt->ge", r"(?<=[\w\)\]] )>(?= [\w\(\-&\*])", ">="), ("ge->gt", r"(?<=[\w\)\]] )>=(?= [\w\(\-&\*])", ">"),
    ("eq->ne", r"(?<=[\w\)\]] )==(?= [\w\(\-&\*])", "!="), ("ne->eq", r"(?<=[\w\)\]] )!=(?= [\w\(\-&\*])", "=="),
    ("and->or", r" && ", " || "), ("or->and", r" \|\| ", " && "),
    ("plus->minus", r"(?<=[\w\)\]] )\+(?= [\w\(])", "-"), ("minus->plus", r"(?<=[\w\)\]] )-(?= [\w\(])", "+"),
    ("true->false", r"\btrue\b", "false"), ("false->true", r"\bfalse\b", "true"),
    ("min->max", r"\.min\(", ".max("), ("max->min", r"\.max\(", ".min("),
    ("Less->Greater", r"\bOrdering::Less\b|\bLess\b(?= =>)", "Greater"), ("Greater->Less", r"\bGreater\b(?= =>)", "Less"),
    ("HalfUp->HalfDown", r"\bHalfUp\b", "HalfDown"), ("HalfEven->HalfUp", r"\bHalfEven\b", "HalfUp"), ("Ceiling->Floor", r"\bCeiling\b", "Floor"),
    ("Plus->Minus", r"\bSign::Plus\b", "Sign::Minus"), ("Minus->Plus", r"\bSign::Minus\b", "Sign::Plus"),
    ("is_zero->is_one", r"\.is_zero\(\)", ".is_one()"), ("neg-removed", r"\.neg\(\)", ""),
    ("saturating->wrapping", r"saturating_(add|sub)", r"wrapping_\1"), ("checked_neg-abs", r"\.abs\(\)", ""),
]


def literal_mutants(line):
    out = []
    for m in re.finditer(r"(?<![\w\.])(\d+)(?![\w\.\d])", line):
        v = int(m.group(1))
        if v > 100000:
            continue
        for nv in ({v + 1, max(v - 1, 0)} - {v}):
            out.append(("lit%d->%d" % (v, nv), line[:m.start()] + str(nv) + line[m.end():]))
    return out


def gen(n_sample, seed):
    os.makedirs(MT, exist_ok=True)
    cands = []
    files = [f for f in sh("git ls-files src", cwd=REPO)[1].split() if f.endswith(".rs") and ".tests." not in f and "without_std" not in f and "with_std" not in f and "macros" not in f]
    for f in files:
        lines, ok = nontest_lines(os.path.join(REPO, f))
        for n, l in enumerate(lines):
            if not ok[n] or not l.strip():
                continue
            if re.search(r"\bfn\b|\bimpl\b|->|::<|\bwhere\b|^\s*pub (struct|enum|trait|mod|const|type)|macro_rules|^\s*///", l):
                # signatures and generics: only literal changes in consts
                if not re.search(r"\bconst\b", l):
                    continue
            ms = []
            for name, pat, rep in RULES:
                for m in re.finditer(pat, l):
                    new = l[:m.start()] + m.expand(rep) + l[m.end():]
                    if new != l:
                        ms.append((name, new))
            ms += literal_mutants(l)
            fn = enclosing_fn(lines, n)
            for name, new in ms:
                cands.append({"file": f, "line": n + 1, "rule": name, "old": l, "new": new, "fn": fn})
    rnd = random.Random(seed)
    rnd.shuffle(cands)
    # stratify: at most ceil(share) per file
    per_file = {}
    pick = []
    cap = max(3, n_sample // max(1, len(files)) * 3)
    for c in cands:
        if per_file.get(c["file"], 0) >= cap:
            continue
        per_file[c["file"]] = per_file.get(c["file"], 0) + 1
        pick.append(c)
        if len(pick) >= n_sample:
            break
    for i, c in enumerate(pick):
        c["id"] = "M%03d" % i
    with open(os.path.join(MT, "mutants.jsonl"), "w") as fh:
        for c in pick:
            fh.write(json.dumps(c) + "\n")
    print("candidates", len(cands), "sampled", len(pick), "per file", per_file)


def apply_mut(wt, c):
    p = os.path.join(wt, c["file"])
    lines = open(p).read().split("\n")
    assert lines[c["line"] - 1] == c["old"], "source moved"
    lines[c["line"] - 1] = c["new"]
    open(p, "w").write("\n".join(lines))


def revert(wt):
    sh("git checkout -q -- .", cwd=wt)


def ensure_wt(path):
    if not os.path.isdir(path):
        sh(["git", "-C", REPO, "worktree", "add", "-q", "--detach", path, "HEAD"])


def filter_worker(k, items, outfh):
    wt = os.path.join(MT, "wt%d" % k)
    ensure_wt(wt)
    env = dict(os.environ, CARGO_NET_OFFLINE="true", CARGO_TARGET_DIR=os.path.join(MT, "tgt%d" % k), CARGO_BUILD_JOBS="4")
    for c in items:
        revert(wt)
        try:
            apply_mut(wt, c)
        except AssertionError:
            continue
        t0 = time.time()
        try:
            rc, out = sh("cargo test --offline --lib -q 2>&1 | tail -5", cwd=wt, env=env, timeout=120)
            ok_lib = "test result: ok" in out
            status = "survived"
            if not ok_lib:
                status = "killed-compile" if "error" in out and "test result" not in out else "killed-tests"
            else:
                rc, out2 = sh("cargo test --offline --doc -q 2>&1 | tail -5", cwd=wt, env=env, timeout=120)
                if "test result: ok" not in out2:
                    status = "killed-doctests"
        except subprocess.TimeoutExpired:
            status = "killed-timeout"
        c2 = dict(c, status=status, filter_s=round(time.time() - t0, 1))
        outfh.write(json.dumps(c2) + "\n")
        outfh.flush()
    revert(wt)


def do_filter(workers):
    cands = [json.loads(l) for l in open(os.path.join(MT, "mutants.jsonl"))]
    done = set()
    sp = os.path.join(MT, "filtered.jsonl")
    if os.path.exists(sp):
        done = {json.loads(l)["id"] for l in open(sp)}
    cands = [c for c in cands if c["id"] not in done]
    fh = open(sp, "a")
    chunks = [cands[i::workers] for i in range(workers)]
    with ThreadPoolExecutor(workers) as ex:
        list(ex.map(lambda a: filter_worker(a[0], a[1], fh), enumerate(chunks)))
    fh.close()
    res = [json.loads(l) for l in open(sp)]
    surv = [r for r in res if r["status"] == "survived"]
    with open(os.path.join(MT, "survivors.jsonl"), "w") as out:
        for r in surv:
            out.write(json.dumps(r) + "\n")
    print("filtered", len(res), "survivors", len(surv))


def props_for(c):
    if c["file"] in FILEMAP:
        return FILEMAP[c["file"]]
    if c["file"] == "src/lib.rs":
        for pat, props in FNMAP:
            if re.search(pat, c["fn"]):
                return props
    return BROAD


def do_check():
    vcopy = os.path.join(MT, "verif")
    rwt = os.path.join(MT, "repo")
    ensure_wt(rwt)
    revert(rwt)
    sh(["rsync", "-a", "--delete", "--exclude", ".git", "--exclude", "replays", "--exclude", "work", VERIF + "/", vcopy + "/"])
    ct = os.path.join(vcopy, "harness", "Cargo.toml")
    txt = open(os.path.join(VERIF, "harness", "Cargo.toml")).read().replace('path = "/repo"', 'path = "%s"' % rwt)
    open(ct, "w").write(txt)
    env = dict(os.environ, VERIF_REPO=rwt, CARGO_NET_OFFLINE="true")
    surv = [json.loads(l) for l in open(os.path.join(MT, "survivors.jsonl"))]
    rp = os.path.join(MT, "results.jsonl")
    done = {json.loads(l)["id"] for l in open(rp)} if os.path.exists(rp) else set()
    fh = open(rp, "a")
    for c in surv:
        if c["id"] in done:
            continue
        revert(rwt)
        apply_mut(rwt, c)
        verdicts = {}
        t0 = time.time()
        for p in props_for(c):
            try:
                rc, out = sh(["./check", p], cwd=vcopy, env=env, timeout=1500)
            except subprocess.TimeoutExpired:
                verdicts[p] = "TIMEOUT"
                continue
            last = [l for l in out.split("\n") if l.startswith("VIOLATION") or l.startswith("OK ")]
            v = last[-1] if last else "??? rc=%d" % rc
            verdicts[p] = ("VIOLATION-noinput" if "no-failing-input-found" in v else "VIOLATION") if v.startswith("VIOLATION") else ("OK" if v.startswith("OK") else v[:80])
            if verdicts[p].startswith("VIOLATION") and verdicts[p] != "VIOLATION-noinput":
                break      # caught with a replay: enough
        c2 = dict(c, verdicts=verdicts, caught=any(v.startswith("VIOLATION") for v in verdicts.values()), check_s=round(time.time() - t0, 1))
        fh.write(json.dumps(c2) + "\n")
        fh.flush()
    revert(rwt)
    sh(["python3", "tools/extract.py"], cwd=vcopy, env=dict(os.environ, VERIF_REPO=rwt))


def report():
    res = [json.loads(l) for l in open(os.path.join(MT, "results.jsonl"))]
    fl = [json.loads(l) for l in open(os.path.join(MT, "filtered.jsonl"))]
    from collections import Counter
    print("candidates tried:", len(fl), Counter(r["status"] for r in fl))
    print("survivors checked:", len(res), "caught:", sum(r["caught"] for r in res))
    for r in res:
        if not r["caught"]:
            print("NOT CAUGHT %s %s:%d [%s] fn=%s\n    - %s\n    + %s\n    %s" % (r["id"], r["file"], r["line"], r["rule"], r["fn"], r["old"].strip(), r["new"].strip(), r["verdicts"]))


def markdown():
    """seeded/CAMPAIGN.md from the scratch results (triage notes are kept in tools/campaign_triage.json)"""
    res = [json.loads(l) for l in open(os.path.join(MT, "results.jsonl"))]
    fl = [json.loads(l) for l in open(os.path.join(MT, "filtered.jsonl"))]
    tri = {}
    tp = os.path.join(VERIF, "tools", "campaign_triage.json")
    if os.path.exists(tp):
        tri = json.load(open(tp))
    from collections import Counter
    st = Counter(r["status"] for r in fl)
    out = ["# Mechanical mutation campaign (tools/mutcampaign.py)", "",
           "Small syntactic changes of /repo's non-test source (comparison flips, off-by-one literals, boolean / sign / rounding-mode /",
           "min-max swaps, `is_zero`->`is_one`, dropped `.neg()`/`.abs()`), sampled per file with a fixed seed. A change *survives* when the crate",
           "still compiles and its own 861 unit tests and 20 doc tests pass; every survivor was applied to a scratch worktree and the quick checks of",
           "the properties anchored in the changed file were run against it (a scratch copy of /verif pointed at the worktree through VERIF_REPO;",
           "nothing is applied to /repo). A run stops at the first check that reports a violation with a concrete replay.", "",
           "| candidates | did not compile | killed by the crate's tests | test suite hung | survived | survivors checked | caught by a check | not caught |",
           "|---|---|---|---|---|---|---|---|",
           "| %d | %d | %d | %d | %d | %d | %d | %d |" % (len(fl), st["killed-compile"], st["killed-tests"] + st["killed-doctests"], st["killed-timeout"], st["survived"],
                                                          len(res), sum(r["caught"] for r in res), sum(not r["caught"] for r in res)), "",
           "## Survivors not caught, with triage", "",
           "Every one was read against the source. `equivalent` = the change cannot alter any observable result; `dead code` = the changed line is not",
           "reachable from the public API (confirmed by tools/coverage.sh: never executed) or not compiled; `outside the property` = observable only where no",
           "listed property speaks (e.g. the representation of a zero product, scales outside the quantifier).", "",
           "| id | place | change | checks run | triage |", "|---|---|---|---|---|"]
    for r in res:
        if r["caught"]:
            continue
        out.append("| %s | %s:%d `%s` | `%s` -> `%s` | %s | %s |" % (
            r["id"], r["file"], r["line"], r["fn"], r["old"].strip().replace("|", "\\|")[:70], r["new"].strip().replace("|", "\\|")[:70],
            " ".join(sorted(r["verdicts"])), tri.get(r["id"], "(not yet triaged)")))
    out += ["", "## Survivors caught", "", "| id | place | change | caught by |", "|---|---|---|---|"]
    for r in res:
        if not r["caught"]:
            continue
        by = [p for p, v in r["verdicts"].items() if v.startswith("VIOLATION")]
        kind = "replay" if any(v == "VIOLATION" for v in r["verdicts"].values()) else "no-failing-input-found"
        out.append("| %s | %s:%d `%s` | `%s` -> `%s` | %s (%s) |" % (
            r["id"], r["file"], r["line"], r["fn"], r["old"].strip().replace("|", "\\|")[:60], r["new"].strip().replace("|", "\\|")[:60], " ".join(by), kind))
    open(os.path.join(VERIF, "seeded", "CAMPAIGN.md"), "w").write("\n".join(out) + "\n")
    print("wrote seeded/CAMPAIGN.md", len(res))


def clean():
    for d in os.listdir(MT) if os.path.isdir(MT) else []:
        p = os.path.join(MT, d)
        if d.startswith("wt") or d == "repo":
            sh(["git", "-C", REPO, "worktree", "remove", "--force", p])
    shutil.rmtree(MT, ignore_errors=True)
    sh(["git", "-C", REPO, "worktree", "prune"])


if __name__ == "__main__":
    cmd = sys.argv[1]
    if cmd == "gen":
        gen(int(sys.argv[2]) if len(sys.argv) > 2 else 200, int(sys.argv[3]) if len(sys.argv) > 3 else 1)
    elif cmd == "filter":
        do_filter(int(sys.argv[2]) if len(sys.argv) > 2 else 4)
    elif cmd == "check":
        do_check()
    elif cmd == "report":
        report()
    elif cmd == "markdown":
        markdown()
    elif cmd == "clean":
        clean()
