#!/bin/bash
# usage: tools/process_seeded.sh <seeded id, e.g. C07c> <property> [more properties]
# verifies a sub-agent's change in its scratch worktree /tmp/wt/<id>, then runs the quick checks against it
SID="$1"; shift
FEAT=""
grep -q 'feature = "serde' /tmp/wt/$SID/tests/demo_$SID.rs 2>/dev/null && FEAT="--features serde-json"
cd /tmp/wt/$SID || exit 2
echo "--- worktree status"; git status --short | head -5
echo "--- suite with the change"
CARGO_NET_OFFLINE=true cargo test --offline --lib 2>&1 | grep -E "^test result"
CARGO_NET_OFFLINE=true cargo test --offline --doc 2>&1 | grep -E "^test result"
[ -n "$FEAT" ] && CARGO_NET_OFFLINE=true cargo test --offline $FEAT --lib 2>&1 | grep -E "^test result"
echo "--- demo with the change (must fail)"
CARGO_NET_OFFLINE=true cargo test --offline $FEAT --test demo_$SID 2>&1 | grep -E "^test result"
git diff -- src build.rs > .seeded.diff; git apply -R .seeded.diff
echo "--- demo without the change (must pass)"
CARGO_NET_OFFLINE=true cargo test --offline $FEAT --test demo_$SID 2>&1 | grep -E "^test result"
git apply .seeded.diff; rm -f .seeded.diff
cd /verif
for p in "$@"; do
  tools/try_seeded.sh /tmp/wt/$SID-out/patch.diff $p | tail -1 | cut -c1-170
  grep -v "^#" replays/$p/quick-1-1.txt 2>/dev/null | head -1 | cut -c1-220
done
git -C /repo status --short | head -2
