import sys
pid=sys.argv[1]
prop=open('/tmp/wt/prop_%s.txt'%pid).read()
print(f"""You are testing how robust a Rust library's guarantees are against subtle regressions. You work ONLY inside the git worktree /tmp/wt/{pid}j (a checkout of the bigdecimal-rs crate: arbitrary-precision decimal numbers; sources in src/). Do not read or write anything under /repo or /verif. The machine is offline: always use `cargo ... --offline` (e.g. `cargo test --offline`), nothing can be downloaded.

Here is a semantic property the library is supposed to satisfy:

---
{prop}
---

Your task: write ONE small source change (a realistic bug a maintainer could introduce: an off-by-one in a threshold or fast path, a swapped operand in one rarely used overload, a wrong branch for one sign/scale combination, a dropped carry, a changed constant, two sites that each look fine alone, ...) to the files under /tmp/wt/{pid}j/src that
  (1) BREAKS the property above for some inputs,
  (2) still compiles, and the crate's existing test suite still passes completely: run `cd /tmp/wt/{pid}j && cargo test --offline 2>&1 | grep -E "^test result|FAILED|failed"` and make sure nothing fails (861 unit tests + doc tests),
  (3) needs something SPECIFIC to manifest: an unusual input (particular digit length, scale gap, sign combination, limb value, overload/operand form, rounding mode, precision ...) — not something ordinary use or the first random test would expose at once. Prefer changes that affect only a narrow slice of inputs. Earlier experiments already used these ideas, so pick something DIFFERENT in kind: casting a scale difference to u8 before a `< 20` threshold test; `int_val.is_one()` instead of `is_one()` shortcuts; dropping the final carry of a limb loop; changing the digit count N kept by to_f64; moving a fast-path threshold by one; capping appended zeros; replacing `>=` by `>` in a tie test; removing a `.saturating_sub(1)`. Look for other mechanisms: wrong operand order in a rarely used overload, a sign lost in one branch, a wrong rounding-mode mapping for one mode, an early return that skips normalisation, reuse of a stale variable after a loop, an estimate used where the exact count is needed, integer truncation toward zero vs floor for negatives, etc.

Also write a demonstration: a small Rust integration test file /tmp/wt/{pid}j/tests/demo_{pid}j.rs (using only the public API of the `bigdecimal` crate) that FAILS with your change applied and PASSES on the original code. Verify both: run `cargo test --offline --test demo_{pid}j` with the change (must fail), then take the change out with `git diff -- src > /tmp/wt/{pid}j-out/p.diff && git apply -R /tmp/wt/{pid}j-out/p.diff`, run again (must pass), and re-apply it with `git apply /tmp/wt/{pid}j-out/p.diff`. Do NOT use `git stash` (the stash is shared between worktrees). The crate uses Rust edition 2015: in the test file write `extern crate bigdecimal;`. Run the unit tests with `cargo test --offline --lib` and the doc tests with `cargo test --offline --doc` (a failing demo stops a plain `cargo test` before the doc tests).

When done, produce these files in /tmp/wt/{pid}j-out/ (create the directory):
  - patch.diff : output of `git -C /tmp/wt/{pid}j diff -- src` (the source change only, not the demo)
  - demo_{pid}j.rs : a copy of the demonstration test
  - notes.md : which inputs are affected, why the existing tests do not notice, and the exact commands you ran with their outcomes.
Leave the worktree with your change applied. Keep the change minimal (a few lines). Do not modify any existing test. Do not add features, cfg flags or dependencies. Work quickly: you have about 12 minutes in total, so settle on a change within the first few minutes; prefer a change made of TWO cooperating edits that each look harmless alone, or one that only shows after a multi-step sequence of operations or under an unusual operand form. Report briefly what you did.""")
