#!/bin/sh
# usage: tools/try_seeded.sh <patch.diff> <Cxx> [Cyy ...]
# applies a seeded change to /repo, runs the quick checks, and restores /repo.
set -u
PATCH="$(readlink -f "$1")"; shift
cd /verif
git -C /repo diff --quiet || { echo "/repo is not clean"; exit 2; }
git -C /repo apply "$PATCH" || { echo "patch does not apply"; exit 2; }
SAVE=$(mktemp -d)
cp evidence/*.json "$SAVE"/ 2>/dev/null      # evidence must describe runs on the unchanged tree only
for p in "$@"; do
  echo "== $p"
  ./check "$p" 2>/dev/null | tail -3
done
git -C /repo checkout -- .
cp "$SAVE"/*.json evidence/ 2>/dev/null; rm -rf "$SAVE"
# restore the generated fragment and build products for the unchanged tree
python3 tools/extract.py > /dev/null
