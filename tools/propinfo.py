"""Per-property metadata used by ./check (rules for the evidence file, trusted base, assumptions)."""

TB_COMMON = [
    "Lean 4.33 kernel; axioms propext, Classical.choice, Quot.sound only (audited by #print axioms on every run)",
    "Mathlib v4.33 lemmas imported by lean/BigDec/Proofs",
    "num-bigint/num-integer/num-traits implement the mathematical operations their names say (modelled as Lean Int/Nat)",
    "tools/extract.py (regex translator of tables/constants) and the harness/driver text protocol",
    "rustc/cargo produce the same behaviour in the harness build (release, overflow-checks off) as in a user's build",
]

ASSUME_COMMON = [
    "i64 scale arithmetic does not overflow (all generated scales are far below 2^62)",
    "the hand-written Lean model corresponds to the Rust source: checked by running both on the same generated cases, not proved",
]

PROPS = {
    "C01": {
        "rule": "for each of the 98 operator overloads (op x lhs form x rhs form) and each unary/sum operation: operand pairs built from the branch structure "
                "(scale gaps 0..45, 19/20/21, 589..608, powers of two, up to 10^4; 1..1500 (quick) / 4000 (thorough) digits; zeros with scale, 1.00-style ones, "
                "powers of ten, value-equal twins; primitives 0, +-1, +-2, MIN, MAX, random for all ten widths). Distinct = distinct input line (FNV-1a); "
                "non-trivial = neither operand is zero (sums: at least two terms). Observable compared: the exact value (representation differences are counted as drift). "
                "Unary: neg (value, reference, BigDecimalRef), abs (inherent, Signed::abs, BigDecimalRef::abs), Signed::signum, Signed::abs_sub, double, half, square, cube.",
        "trusted_base": TB_COMMON,
        "assumptions": ASSUME_COMMON,
    },
    "C06": {
        "rule": "all 4200 arguments of round_pair; the small scope of the quantifier (|unscaled| < 10^5, scales -3..8, every target scale from 4 left of the leading digit "
                "to 4 right of the last, 7 modes): complete in thorough, a seed-chosen 1/60 slice in quick; random decimals up to 3000 digits whose discarded tail is "
                "5000..0 / 4999..9 / 5000..01 / 0..0 / 0..01 / 9..9 / random, cut inside the digits, just left of the leading digit, far left, or extended; with_scale and round(n) too. "
                "Observable compared: exact (int, scale). Non-trivial = non-zero input actually losing digits (target scale < scale).",
        "trusted_base": TB_COMMON,
        "assumptions": ASSUME_COMMON,
    },
    "C18": {
        "rule": "10^k (k=0..5000) through the real ten_to_the_uint (hook) and digits() of 10^k, 10^k+1, -(10^k-1); all unscaled values with <= 5 digits x scales -6..6 "
                "(accessor round trip through every constructor/view, the derived reference views abs / neg / neg.abs / abs.neg observed directly: sign, scale, digit count, is_zero, owned copy, equality both ways; normalized) - complete in thorough, 1/23 slice in quick; the real count_decimal_digits_uint and "
                "get_rounding_term (hooks) on 2^(b-1) and 2^b-1 for every bit length b <= 40000 (quick) / 400000 (thorough) plus random b up to 2*10^6 / 2*10^7 - the extreme "
                "inputs for the f64 digit estimate, judged by 10^(d-1) <= n < 10^d; re-scaling through the owned value (with_scale) and the reference view (to_owned_with_scale) by every gap -45..45 and the gaps around 256/512/590 (extension exact, reduction truncates); random decimals up to 5000 digits with up to 5000 trailing zeros, exact scale / precision "
                "extensions by 0..5000. Non-trivial = multi-digit / has trailing zero / actually extends.",
        "trusted_base": TB_COMMON + ["the f64 digit estimate is MODELLED through the rounding primitive F64.rne (u64->f64 conversion and IEEE division as correctly rounded operations); under that model the scalar condition is a theorem up to 2^40 bits (C18_est_code); the driver compares it with Lean hardware doubles per case (tag +hardware-estimate-differs)"],
        "assumptions": ASSUME_COMMON,
    },
    "C07": {
        "rule": "decimals of 1..3000 digits (both signs, scales -3000..3000) x p in 1..digits+5 (emphasis p = digits-1, digits, digits+1, 1) x 7 modes, through "
                "with_precision_round, Context::round_decimal / round_decimal_ref (decimal, reference, BigInt), BigDecimalRef::round_with_context, Context::add_refs / "
                "add_refs_into (sums needing more than p digits) and with_prec (each magnitude with both signs); the discarded tail is 5000..0 / 4999..9 / 5000..01 / 0..0 / 9..9 / random, "
                "heads include all-nines (carry into a new digit). Observable: exact (int, scale); for sums the value. Non-trivial = non-zero input with more than p digits.",
        "trusted_base": TB_COMMON + ["f64 digit estimate inside get_rounding_term/digits(): modelled through F64.rne; EstOK proved for it up to 2^40 bits (C18_est_code, C07_withPrec_code)"],
        "assumptions": ASSUME_COMMON,
    },
    "C09": {
        "rule": "pairs (a, b) with 1..2000 digits, both signs, scale gaps 0..10^4 in either direction (every gap 0..45, the 19/20/21 and 589..608 algorithm switches), "
                "through the four ownership forms and %=; b = 0 (must panic), a an exact multiple of b, operands equal up to representation, |a| < |b|, zero a. "
                "Observable: the value (and panic / no panic). Non-trivial = a non-zero.",
        "trusted_base": TB_COMMON,
        "assumptions": ASSUME_COMMON,
    },
    "C15": {
        "rule": "for each of i64/u64/i128/u128 MIN, MAX, their negatives and 0: the values limit + {-2.5,…,+2.5} step 0.5 and limit + random fraction, at scales 1..40, "
                "through to_i64/to_i128/to_u64/to_u128 on values and references, to_bigint, is_integer; every limit +-3 at scale 0 (the fast paths) and at negative scales when divisible, random 62..129-bit integers at scale 0; small unscaled values at negative scales up to -40 (pushed past a limit), "
                "fractions in (-1,1), zeros with any scale, integers written with trailing zeros; From<prim>/From<&prim>/FromPrimitive for every width on MIN, MAX, 0, ±1, random; From<BigInt>. "
                "Observable: the exact Option<integer> / bool / (int, scale).",
        "trusted_base": TB_COMMON,
        "assumptions": ASSUME_COMMON,
    },
    "C19": {
        "rule": "random straight-line programs of length 1..40 on an accumulator; each step is a binary operation through a randomly chosen overload (98 overloads, accumulator on "
                "either side where the forms allow, all primitive widths) with an operand from a pool (random, zero-with-scale, one-with-zeros, powers of ten, value-equal twin), or "
                "neg/abs/double/half/square/cube/normalize/clone-through-reference, upward re-scaling (0..700), or a sum over owned values / references. After EVERY step the implementation's "
                "value is compared with the model's and with the exact evaluation; cmp/== against the previous accumulator and hash equality with a re-scaled twin are checked too. "
                "The model continues from the implementation's representation so later steps see the same intermediate forms. Non-trivial = at least two steps.",
        "trusted_base": TB_COMMON,
        "assumptions": ASSUME_COMMON,
    },
    "C02": {
        "rule": "pairs (a,b) through ==, !=, <, <=, >, >=, cmp, partial_cmp, max, min on values and ==/cmp on references: the bit-length shortcut itself through a hook on a = 2^N - 1, b = 2^j with N within 2 of bits(b*10^k) for every k <= 400, random k to 10^7 and the scale differences where the f64 product overshoots (178898934; 475127550 in thorough); for every k<20, 1..4 limbs and every limb position the "
                "32-bit limbs floor(2^64/10^k)-1,+0,+1 and 2^32-1 (value-equal partner x*10^k at scale+k, and a one-ulp neighbour); value-equal pairs with scale gaps 1..19 and "
                "20..3000 (19/20/21, 589..608 switches); ULP neighbours; sign flips; zeros with any scale; operands straddling 2^64 and 2^128; one differing far digit; scale "
                "differences above 2^63; sort() of 2..10 decimals with value-equal twins; negated and abs reference views compared with the owned results. Observable: all fifteen answers exactly. Non-trivial = both operands non-zero.",
        "trusted_base": TB_COMMON + ["f64 product LOG2_10*k in highest_bit_lessthan_scaled: modelled through F64.rne (u64->f64 conversion and IEEE multiplication as correctly rounded operations); PreOK proved for it up to scale differences of 2^40 (C02_pre_code)"],
        "assumptions": ASSUME_COMMON + ["operands have fewer than 2^63 digits"],
    },
    "C03": {
        "rule": "pairs (a, b): b = a with 0..2000 extra trailing zeros (scale moved along), b = normalized(a) (negative scale versus written zeros), zeros with any scale "
                "(|scale| <= 10^5), sign flips, +1 neighbours, same digits at a shifted scale; for each pair: a == b, equality of the exact byte stream written to a recording "
                "Hasher, and equality under DefaultHasher (SipHash), a write-chunk-sensitive hasher and FNV-1a; plus the recorded bytes of single values compared with the model's "
                "string. Property checked: a == b implies all four agree. Non-trivial = not both zero.",
        "trusted_base": TB_COMMON + ["str::hash writes the UTF-8 bytes then 0xff (observed through the recording hasher on every run)"],
        "assumptions": ASSUME_COMMON + ["|scale| <= 10^5 (the hash materialises zeros)"],
    },
    "C08": {
        "rule": "pairs (a, b): divisors 2^i 5^j (i<=60, j<=30: terminating quotients), a = b*q + r with q of P-3..P+3 digits in all shapes (nines, zeros, ties) and r in {0, 1, |b|-1, |b|/2, |b|/2+1} "
                "(quotients that are exact / repeating / half-way at the P-th digit), |a| << |b|, |a| >> |b| (quotient longer than P digits), equal unscaled integers with different scales, "
                "unit divisors written 1.000, zero numerators; through the four ownership forms; every primitive integer width (value, reference, /=, /= &) on either side, f32/f64 divisors and "
                "numerators incl. +-1, +-2, zero, subnormal, inf, NaN; ZERO divisors through every overload (decimal zero of any scale, integer zero of every width, float numerators); "
                "impl_division through the hook at precisions 1..150. Judged by the relational spec (exact when the quotient has <= P digits, else >= P digits within half ulp, ties away, sign) "
                "and by value equality with the model.",
        "trusted_base": TB_COMMON + ["exact float->decimal conversion is taken from the library itself here (verified separately under C14)"],
        "assumptions": ASSUME_COMMON + ["a numerator equal to one (inverse(), C12) is excluded except for zero divisors"],
    },
    "C05": {
        "rule": "EXHAUSTIVE: every string of length <= 6 (quick) / <= 7 (thorough) over the alphabet {0,1,7,+,-,.,e,E,_,x,space} through FromStr; grammar-generated numerals "
                "(optional sign, 0..5000 integer and fraction digits with '_' separators, optional e/E exponent with sign, exponents incl. 2^63-1..2^63+2, 2^127-1, 2^127, up to 40 digits), "
                "half of them with 1-2 byte-level mutations (inserted/replaced signs, dots, underscores, e/E, spaces, NUL, Arabic-Indic and full-width digits, stray 0xff/0xc3 bytes, deletions); "
                "invalid UTF-8 goes through parse_bytes; other radixes through from_str_radix/parse_bytes. Observable: accepted (int, scale) or rejection; a panic would be a violation. "
                "Non-trivial = at least two bytes.",
        "trusted_base": TB_COMMON + ["str::from_utf8 (only valid UTF-8 reaches the parser); the model works on bytes and splits only at ASCII"],
        "assumptions": ["the hand-written Lean model corresponds to the Rust source: checked by running both on the same generated cases, not proved"],
    },
    "C04": {
        "rule": "every scale in [-40,60] x every digit length 1..40 x {random, all nines, power of ten} x both signs, zero with every scale in that range, through the ten renderings "
                "(Display on value / to_string / reference, {:e}, {:E} on value and reference, scientific, engineering, plain) - all ten in thorough, three seed-chosen per decimal in quick; "
                "random decimals of 1..3000 digits with scales up to +-10^15, 0.000ddd around the leading-zero threshold, integers around the trailing-zero threshold. For each: exact text "
                "vs the model; the text is read by the grammar specification and by the real parser: equal value, identical (int, scale) except engineering / Display with scale in "
                "[-high,-1], Display length <= digits + thresholds + 30. Non-trivial = non-zero.",
        "trusted_base": TB_COMMON + ["core::fmt::Formatter::pad_integral (small model, tied by correspondence)"],
        "assumptions": ASSUME_COMMON,
    },
    "C16": {
        "rule": "small scope |unscaled| < 10^5 x scales -3..8 x N 0..9 through {:.N} and {:.Ne} (complete in thorough, 1/37 slice in quick); random decimals up to 300 digits, scales -1100..400, "
                "N in 0..1100 incl. N around the padding limit, cut tails 5000..0/4999..9/0..01/9..9 (ties, carries into a new integer digit, values below half a unit), both signs; every "
                "combination of fill in {space,*} x align in {none,<,>,^} x '+' x '0' x width 0..39 x {Display, e, E}. Checks: exact text vs model; flags = pad_integral applied to the "
                "implementation's own unflagged text; the unflagged text parses (grammar spec) to the value rounded by the declarative rounding at N fraction digits / N+1 significant digits "
                "with exactly that many digits; over-padding case stays exact. Non-trivial = non-zero.",
        "trusted_base": TB_COMMON + ["core::fmt::Formatter::pad_integral (small model, tied by correspondence)"],
        "assumptions": ASSUME_COMMON,
    },
    "C17": {
        "rule": "decimals with 1..400 digits, scales -150000..150000 incl. the limit +-1, zeros with positive and negative scales, values in each of Display's three notations, through: "
                "Serialize to a JSON string and back (also via serde_json::Value), the json_num adapter (serialize + deserialize with the scale limit), json_num_option incl. null; "
                "JSON number texts of 1..2000 digits with fractions, exponents (150000 +-1, up to 400000), leading '-', and malformed variants (leading '+', trailing '.', leading zero, "
                "dangling 'e', '..', '_', leading '.') through plain Deserialize, json_num and json_num_option, as numbers and as strings; serde token streams of every integer width and "
                "f32/f64 (NaN, inf, subnormal, -0.0, random bits) and values of other types (bool, unit, char, sequence, map: error value expected) via IntoDeserializer. Expected results: Display model, parser model, JSON-number recogniser, scale limit from build.rs, "
                "IEEE bit semantics. Configuration stage: the harness (and the library) rebuilt with RUST_BIGDECIMAL_SERDE_SCALE_LIMIT in {0 = no limit, 1, 7} (thorough: {0, 1, 2, 7, 1000}) and the json_num adapters "
                "run on numbers whose scales sit at that limit, one beyond it, at the default limit and far beyond, the limit travelling with every line.",
        "trusted_base": TB_COMMON + ["serde / serde_json plumbing and serde_json's number grammar (modelled by a recogniser, tied by the malformed-number stream)"],
        "assumptions": ASSUME_COMMON,
    },
    "C10": {
        "rule": "non-negative decimals with 1..2000 digits, scales -2000..2000 of both parities: perfect squares, perfect squares +-1 in a far-away digit, squares of roots whose digits after "
                "the p-th are 5000..0 / 4999..9 (perturbed by -2..2), inputs with more than 2(p+5) digits, d*10^k, random; p in {100, 1..5, 1..150, 1..40}; 7 modes; through "
                "sqrt_with_context, the reference form, the absolute-value and copy-sign forms; zero, one written as 1.000, negative inputs. Each result is judged by the exact certificate "
                "(squares of the rounding boundaries compared with x), and compared exactly with the model.",
        "trusted_base": TB_COMMON + ["BigUint::sqrt is the floor square root (modelled by Nat.sqrt)"],
        "assumptions": ASSUME_COMMON,
    },
    "C11": {
        "rule": "decimals of both signs with 1..2000 digits, scales -2000..2000 (all residues mod 3): perfect cubes, perfect cubes +-1 in a far-away digit, cubes of roots whose digits "
                "after the p-th are 5000..0 / 4999..9 (perturbed), inputs with more than 3(p+4) digits, d*10^k, random; p in {160, 1..5, 1..150, 1..40}; 7 modes; cbrt(-x) under the mirrored "
                "mode compared with -cbrt(x). Each result is judged by the exact certificate (cubes of the rounding boundaries compared with |x|, Floor/Ceiling on the signed value) and "
                "compared exactly with the model.",
        "trusted_base": TB_COMMON + ["BigUint::nth_root(3) is the floor cube root (modelled by a bisection icbrt)"],
        "assumptions": ASSUME_COMMON,
    },
    "C12": {
        "rule": "non-zero decimals of both signs, 1..1500 digits, scales -2000..2000: 2^i 5^j (i<=60, j<=30: terminating reciprocals, at and above their exact length), powers of ten, "
                "99..9 and 100..01 (reciprocal just above/below a power of ten), 300..1500-digit integers (initial guess through f64 underflow), bit lengths 1018..1081 (the f64 exponent limits of the guess), random; "
                "`1 / x` with a primitive one of every integer and float width on owned and borrowed x (routes to inverse()); p in {100, 1..5 (emphasis), 1..150, 1..40}; "
                "7 modes; inverse(-x) under the mirrored mode compared exactly with -inverse(x). Each result is judged exactly: sign, |R*x - 1| < (one unit of the p-th digit)*x, and R*x = 1 "
                "whenever 1/x has at most p significant digits; and compared exactly with the model (which receives the real f64 initial guess through a hook and records non-termination as a failure).",
        "trusted_base": TB_COMMON + ["the initial guess is taken from the code through a hook; its model is a theorem-backed premise: main path with no assumption (C12_guess_premise), back-up path assuming only that (LN_2 * libm::exp10(-frac)) as f32 is within 2% of ln2 * 10^-frac (C12_backup_guess_premise; the harness recomputes that f32 with the same libm)"],
        "assumptions": ASSUME_COMMON,
    },
    "C13": {
        "rule": "every integer argument in -120..120 (both tiers; thorough adds every 37th integer out to +-1000 and +-1000 themselves, most random arguments within +-150, one in ten out to +-400, one in forty out to +-1000); 1..40-digit arguments with magnitudes 1e-60..max, both signs; arguments within a few units of k*ln(10) "
                "(60..110 digits) where e^x crosses a power of ten; long digit strings; ordered pairs x < y for the two-ulp order check. Each result is judged against a rational enclosure of e^x "
                "(scaling-and-squaring, Taylor partial sums with a remainder bound, outward-rounded fixed-point interval arithmetic at 45+ guard digits): strictly positive, exactly the "
                "configured number of digits, within one unit of the last digit; and compared exactly with the model (series loop with impl_division).",
        "trusted_base": TB_COMMON + ["Mathlib's Real.exp and the HasSum of its series (the one-unit bound is a theorem for |x| <= 1000: C13_accuracy_to_1000_code); the enclosure of e^x that judges each generated argument is proved sound with respect to Real.exp (C13_enclosure_sound, C13_oracle_accepts_only_one_ulp)"],
        "assumptions": ASSUME_COMMON,
    },
    "C14": {
        "rule": "f32: every exponent field x both signs x mantissas {0, 1, max, 0x400000, random}; f64: every exponent field x both signs x mantissas {0, 1, max, 2^51, random}; random 32/64-bit "
                "patterns (NaN, infinities, subnormals, +-0 included): the decimal is compared with the model and must denote exactly the IEEE value, and to_f64 of it must return the identical bits "
                "(-0.0 -> 0.0; f32 widened exactly); to_f64 on decimals of 1..400 digits with exponents -400..400, exact halfway points between adjacent floats, values around f64::MAX, MIN_POSITIVE "
                "and the smallest subnormal, zeros, scales beyond the i32 exponent range (2^31 +-40, 3*10^9, 2^40, near i64::MIN/MAX: tiny values must underflow to zero, huge ones overflow to infinity): judged in exact rational arithmetic from the returned bits (sign, 2^-48 relative, one subnormal step, infinity only near/after MAX). "
                "Thorough adds all 2^32 f32 patterns against an independent exact formula in-process.",
        "trusted_base": TB_COMMON + ["the three float primitives used inside to_f64 are MODELLED, not verified: BigUint::to_f64 and str::parse::<f64> as round-to-nearest-even of the exact value, f64::powi as compiler-rt repeated squaring with each product rounded to nearest even (F64.rne, proved round-to-nearest in C14_rne_nearest); the correspondence check compares the resulting bit pattern with the real to_f64 on every generated decimal", "the f64 digit estimate inside to_f64 is modelled through the same rounding primitive (kernel-transparent; C14_digit_estimate_keeps25); the driver cross-checks it against Lean hardware floats per input (tag +hardware-estimate-differs)"],
        "assumptions": ASSUME_COMMON,
    },
    "C20": {
        "rule": "the C20 case set (Context::default() vs the generated constants; default-context sqrt/cbrt/inverse vs explicit Context::default(); sqrt/cbrt/round/division/exp vs the model "
                "instantiated with the configured precision and mode; small-scope exhaustive division of all numerators and denominators below 1000 (120 when precision > 3 in quick); Display "
                "around both thresholds and precision formatting around the padding limit, plus deterministic cases one below / at / one above every configured limit (padding, upper and lower threshold), vs the character-level model with the configured thresholds) is run under the default build and under "
                "rebuilt harness binaries: quick = {prec 3, Up, low 1, high 0, pad 0}, {prec 250, Floor, low 9, high 40, pad 1000}, one seed-chosen combination; thorough = every one-factor "
                "variation of precision {1,2,3,7,16,34,250}, the 6 other modes, low {1,9}, high {0,2,40}, pad {0,5} plus 8 random combinations. Each rebuilt binary reports its configuration "
                "through the hooks and must match the requested environment.",
        "trusted_base": TB_COMMON + ["cargo/build.rs rerun-if-env-changed rebuilds the library for each environment (checked: the binary reports its configuration)"],
        "assumptions": ASSUME_COMMON,
    },
}


MODES = ["Up", "Down", "Ceiling", "Floor", "HalfUp", "HalfDown", "HalfEven"]
DEFAULT_CFG = {"prec": 100, "mode": "HalfEven", "low": 5, "high": 15, "pad": 1000}


def c20_configs(tier, seed):
    import random
    rnd = random.Random(seed)
    cfgs = [
        dict(DEFAULT_CFG, prec=3, mode="Up", low=1, high=0, pad=0),
        dict(DEFAULT_CFG, prec=250, mode="Floor", low=9, high=40, pad=1000),
        dict(prec=rnd.choice([1, 2, 7, 16, 34]), mode=rnd.choice(MODES), low=rnd.choice([1, 5, 9]),
             high=rnd.choice([0, 2, 15, 40]), pad=rnd.choice([0, 5, 1000])),
    ]
    if tier == "thorough":
        for p in [1, 2, 3, 7, 16, 34, 250]:
            cfgs.append(dict(DEFAULT_CFG, prec=p))
        for m in MODES:
            if m != DEFAULT_CFG["mode"]:
                cfgs.append(dict(DEFAULT_CFG, mode=m))
        for lo in [1, 9]:
            cfgs.append(dict(DEFAULT_CFG, low=lo))
        for hi in [0, 2, 40]:
            cfgs.append(dict(DEFAULT_CFG, high=hi))
        for pad in [0, 5]:
            cfgs.append(dict(DEFAULT_CFG, pad=pad))
        for _ in range(8):
            cfgs.append(dict(prec=rnd.choice([1, 2, 3, 7, 16, 34, 100, 250]), mode=rnd.choice(MODES), low=rnd.choice([1, 5, 9]),
                             high=rnd.choice([0, 2, 15, 40]), pad=rnd.choice([0, 5, 1000])))
    return cfgs


def extra_stage(prop, tier, seed, chk, tally):
    """C20: rebuild the harness under other RUST_BIGDECIMAL_* settings and run the C20 cases again"""
    import os, subprocess
    if prop == "C17":
        return c17_limit_stage(tier, seed, chk, tally)
    if prop != "C20":
        return {}, []
    violations = []
    built = []
    tdir = os.path.join(chk.HARNESS, "target-cfg")
    for cfg in c20_configs(tier, seed):
        env = dict(os.environ, CARGO_NET_OFFLINE="true",
                   RUST_BIGDECIMAL_DEFAULT_PRECISION=str(cfg["prec"]),
                   RUST_BIGDECIMAL_DEFAULT_ROUNDING_MODE=cfg["mode"],
                   RUST_BIGDECIMAL_FMT_EXPONENTIAL_LOWER_THRESHOLD=str(cfg["low"]),
                   RUST_BIGDECIMAL_FMT_EXPONENTIAL_UPPER_THRESHOLD=str(cfg["high"]),
                   RUST_BIGDECIMAL_FMT_MAX_INTEGER_PADDING=str(cfg["pad"]))
        want = "%d,%s,%d,%d,%d" % (cfg["prec"], cfg["mode"], cfg["low"], cfg["high"], cfg["pad"])
        with chk.Lock("cargo"):
            p = subprocess.run(["cargo", "build", "--release", "--offline", "--target-dir", tdir], cwd=chk.HARNESS, env=env,
                               stdout=subprocess.PIPE, stderr=subprocess.STDOUT, text=True)
            hbin = os.path.join(tdir, "release", "harness")
            if p.returncode != 0:
                violations.append(("configuration", None, "harness does not build with %s: %s" % (want, p.stdout[-300:])))
                continue
            # keep a private copy: the next configuration overwrites the binary
            import shutil
            mine = os.path.join(tdir, "harness-" + want.replace(",", "_"))
            shutil.copy(hbin, mine)
        got = subprocess.run([mine, "config"], stdout=subprocess.PIPE, text=True).stdout.strip()
        if got != want:
            violations.append(("configuration", None, "built with %s but the library reports %s" % (want, got)))
        before = tally.evaluations
        errs = chk.stage_explore(prop, tier, seed, tally, hbin=mine, corpus=False)
        for e in errs:
            violations.append(("configuration", None, "%s: %s" % (want, e)))
        built.append({"config": want, "reported": got, "evaluations": tally.evaluations - before})
        os.remove(mine)
    return {"configurations": built}, violations


def c17_limit_stage(tier, seed, chk, tally):
    """C17: "exponents beyond the CONFIGURED limit are errors" - rebuild the harness (and with it the library)
    under other RUST_BIGDECIMAL_SERDE_SCALE_LIMIT settings (0 = no limit) and run the json_num cases around that limit"""
    import os, subprocess, shutil
    violations = []
    built = []
    tdir = os.path.join(chk.HARNESS, "target-cfg")
    for lim in ([0, 1, 7] if tier != "thorough" else [0, 1, 2, 7, 1000]):
        env = dict(os.environ, CARGO_NET_OFFLINE="true", RUST_BIGDECIMAL_SERDE_SCALE_LIMIT=str(lim))
        with chk.Lock("cargo"):
            p = subprocess.run(["cargo", "build", "--release", "--offline", "--target-dir", tdir], cwd=chk.HARNESS, env=env,
                               stdout=subprocess.PIPE, stderr=subprocess.STDOUT, text=True)
            hbin = os.path.join(tdir, "release", "harness")
            if p.returncode != 0:
                violations.append(("configuration", None, "harness does not build with scale limit %d: %s" % (lim, p.stdout[-300:])))
                continue
            mine = os.path.join(tdir, "harness-serdelimit_%d" % lim)
            shutil.copy(hbin, mine)
        got = subprocess.run([mine, "serdelimit"], stdout=subprocess.PIPE, text=True).stdout.strip()
        if got != str(lim):
            violations.append(("configuration", None, "built with scale limit %d but the harness reports %s" % (lim, got)))
        before = tally.evaluations
        errs = chk.stage_explore("C17", tier, seed, tally, hbin=mine, corpus=False)
        for e in errs:
            violations.append(("configuration", None, "scale limit %d: %s" % (lim, e)))
        built.append({"config": "serde scale limit %d" % lim, "reported": got, "evaluations": tally.evaluations - before})
        os.remove(mine)
    return {"configurations": built}, violations


def _dec_scale(rec, field_index):
    """scale of the decimal in tab-separated input field `field_index` (prop, op, args...)"""
    try:
        f = rec.get("input", "").split("\t")
        return int(f[field_index].split("@")[1])
    except Exception:
        return None


def predicate(name, rec):
    if name == "plain_negscale_rep_only":
        # C04 known finding: plain notation, negative scale, only the representation changed
        sc = _dec_scale(rec, 3)
        return sc is not None and sc < 0 and rec.get("note", "").startswith("representation changed")
    return False
