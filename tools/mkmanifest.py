#!/usr/bin/env python3
"""Regenerates MANIFEST.json from the table below (keeps the manifest valid and consistent)."""
import json, os, subprocess
ROOT = os.path.dirname(os.path.dirname(os.path.abspath(__file__)))

NOTE_COMMON = ("Trusted: Lean kernel + Mathlib, num-bigint arithmetic (modelled as Int/Nat), the extractor and text protocol; "
               "the model-code correspondence is tested on structured cases, not proved; i64 scale overflow excluded by hypothesis.")

CHECKS = {
 "C01": ("Kernel-checked Lean theorem C01_exact: for every one of the 98 overloads and all operands the model's result denotes exactly a+b / a-b / a*b over Q "
         "(plus neg/abs/double/half/square/cube/sums, and ten_to_the_uint = 10^n through all three algorithms with thresholds regenerated from the source). "
         "The model is tied to the code by a differential run of the real operators (all overloads, all primitive widths) against model and exact oracle.",
         NOTE_COMMON, "Lean 4 proof over hand-written model + generated constants; differential correspondence check", "DESIGN.md §5 C01"),
 "C06": ("Kernel-checked Lean theorem C06_withScaleRound: the digit-level model of with_scale_round (three regimes, carry loop, round_pair table regenerated from the "
         "source on every run) equals the declarative rounding for every decimal, target scale and mode; corollaries: exact scale, exact extension, representable inputs "
         "unchanged, neighbour property, mode table on the whole tail, with_scale = Down, round(n) = default mode, all 4200 round_pair arguments; C06_mode_meaning: over Q the result is the textbook function of the exact value x = d * 10^s - Floor = floor(x), Ceiling = ceil(x), Down = truncation, Up = away from zero, HalfUp / HalfDown = nearest with ties away from / toward zero, HalfEven = a nearest integer that is even at a tie (Mathlib Int.floor / Int.ceil). Tied to the code by exact "
         "(int, scale) comparison on the quantifier's small scope and structured random long inputs.",
         NOTE_COMMON, "Lean 4 proof (digit-level refinement to declarative rounding) + translated round_pair table + differential correspondence", "DESIGN.md §5 C06"),
 "C07": ("Kernel-checked Lean theorems: with_precision_round (and every Context / reference entry point, which call it) equals the declarative rounding at the p-th "
         "significant digit for every decimal, p and mode (C07_withPrecisionRound, built on C06's refinement); padding to p digits when fewer exist (C07_pads); "
         "with_prec(p) = the same rounding with ties away from zero for both signs and commutes with negation (C07_withPrec, C07_withPrec_neg for every digit estimate satisfying the scalar condition EstOK; C07_withPrec_code: with the code's own f64 estimate, modelled through the rounding primitive of C14, for every decimal below 2^40 bits - no floating-point premise); "
         "context sums round the exact sum once. Correspondence: exact (int, scale) comparison over all entry points.",
         NOTE_COMMON + " f64 digit estimate: EstOK is proved for the code's own quotient (C18_est_code; IEEE division and u64->f64 conversion modelled as correctly rounded). The proof obligation exposed defect F15 (get_rounding_term at 146964308 bits), repaired in /repo.",
         "Lean 4 proof + differential correspondence check", "DESIGN.md §5 C07"),
 "C18": ("Kernel-checked Lean theorems: digits() = exact decimal digit count for every integer under the scalar condition EstOK on the bit-length estimate; C18_est_code proves EstOK for the code's own f64 quotient "
         "(bits as f64 / LOG2_10) as u64 - modelled through the rounding primitive F64.rne of C14 - for every bit length up to 2^40 (via the convergent 97879/325147 of log10 2), hence "
         "C18_digits_code and C18_rounding_term_code with no floating-point premise (the real code is also exercised for every bit length up to 4*10^4/4*10^5, sampled to 2*10^7, and at 146964308 bits where the f64 quotient overshoots); ten_to_the_uint = 10^n for every n (all three algorithms); "
         "normalized() keeps the value, strips all trailing zeros, maps zero to 0e0, and is canonical (equal values have identical normalized parts); scale/precision extension multiplies by "
         "the exact power of ten. Correspondence: accessor round trips through every constructor and view, exact comparison.",
         NOTE_COMMON + " Accessor/constructor agreement is definitional in the model; its tie to the code is the correspondence run.",
         "Lean 4 proof + differential correspondence check (hooks for internal routines)", "DESIGN.md §5 C18"),
 "C09": ("Kernel-checked Lean theorems: all five remainder forms (four ownership forms and %=) compute the truncated remainder of the operands aligned to the larger scale "
         "(C09_forms_agree, every scale gap, with the real alignment code paths incl. u64 fast paths), and over Q: r = a - b*t for an integer t, |r| < |b|, r is zero or has the sign of a "
         "(which pins t = trunc(a/b)), independence of the sign of b, and panic on a zero divisor in every form. Correspondence on values and panics.",
         NOTE_COMMON, "Lean 4 proof + differential correspondence check", "DESIGN.md §5 C09"),
 "C15": ("Kernel-checked Lean theorems: to_i64/to_i128 and to_u64/to_u128 (the branchy fast paths of the source) equal 'truncate toward zero, Some iff it fits; negative -> None for unsigned' "
         "for every decimal (C15_toSigned, C15_toUnsigned), to_bigint = truncation, truncation = floor/ceil of the rational value (C15_truncInt_value), is_integer iff the value is an integer, "
         "From<int> exact with scale 0. Correspondence on exact Option results around every type limit.",
         NOTE_COMMON, "Lean 4 proof + differential correspondence check", "DESIGN.md §5 C15"),
 "C19": ("Kernel-checked Lean theorem C19_run_exact: by induction over the program, any straight-line program of exact operations (98 binary overloads with the accumulator on either side, "
         "unary operations, re-scaling, normalising, sums) ends with exactly the value of the same program over Q; C19_representation_independent: accumulators of equal value give results of "
         "equal value whatever their forms. Correspondence: random programs, every prefix compared, plus ==/cmp/hash cross-checks along the way.",
         NOTE_COMMON, "Lean 4 proof (invariant over operation sequences) + differential correspondence check on random programs", "DESIGN.md §5 C19"),
 "C02": ("Kernel-checked Lean theorems C02_eq_iff and C02_cmp_spec: the model of check_equality_bigdecimal_ref and Ord (sign cases, checked scale difference incl. >= 2^63, bit-length "
         "prefilter, u32-limb loop with u64 overflow guards and allocating fall-back, digit-wise path, u64/u128 fast paths, digit-count compare, most-significant-first digit loop) "
         "equals equality / compare of the rational values for all operands below 2^40 bits, for every estimate satisfying the scalar condition PreOK; C02_pre_code proves PreOK for the code's own f64 product "
         "(LOG2_10 * k as f64) as u64, lowered by one as the code does, for every scale difference up to 2^40 (beyond that every such operand is below 10^k), so C02_eq_iff_code / C02_cmp_spec_code carry no floating-point premise; ==/cmp agreement, antisymmetry, transitivity; guardedness of the limb loop. "
         "Correspondence on all twelve observable answers incl. limb-boundary operands in every limb position.",
         NOTE_COMMON + " The f64 product is modelled as one correctly rounded multiplication of the double LOG2_10 by the correctly rounded k (F64.rne, proved round-to-nearest in C14). The proof obligation exposed defect F16 (scale difference 178898934), repaired in /repo; its regression replays the shortcut through a hook.",
         "Lean 4 proof + differential correspondence check", "DESIGN.md §5 C02"),
 "C03": ("Kernel-checked Lean theorem C03_hash_eq_of_value_eq: decimals denoting the same number feed identical data (sign character and digit string, trimmed / zero-extended exactly as the "
         "source does) to any hasher - by induction on the number of extra trailing zeros; zero hashes as \"0\" with any scale; combined with C02, a == b implies equal hash input; totality of the model. "
         "Correspondence: the exact byte stream captured by a recording Hasher equals the model's string; equal pairs agree under SipHash, FNV and a chunk-sensitive hasher.",
         NOTE_COMMON, "Lean 4 proof + differential correspondence check", "DESIGN.md §5 C03"),
 "C08": ("Kernel-checked Lean theorems: the shift loop and digit loop of impl_division compute a closed form (C08_closed_form, loop invariants); the closed form is within half a unit in the "
         "last place of the true quotient over Q, ties away from zero, correctly signed, with at least P digits whenever inexact (C08_correctly_rounded, all numerators/denominators/precisions), "
         "and exact whenever the quotient has at most P significant digits (C08_exact_when_short); the decimal Div body = shortcuts (exact) or impl_division; +-1/+-2 primitive shortcuts exact; "
         "every primitive/float/assign form panics on a zero divisor. Correspondence: every overload incl. all primitive widths and floats, judged by the relational spec and the model.",
         NOTE_COMMON + " get_rounding_term on a single digit and count_decimal_digits are replaced by their proven specifications (C18). A numerator equal to one routes to inverse() (C12).",
         "Lean 4 proof (loop invariants + rational error bound) + differential correspondence check", "DESIGN.md §5 C08"),
 "C05": ("Lean model of from_str_radix with the i128 and num-bigint parsers it delegates to (total function on bytes = the no-panic clause) and an independent grammar-shaped "
         "specification. Kernel-checked for ALL byte strings: C05_parse_eq_spec (model = grammar: accepts exactly sign? digits-with-underscores [. fraction] [e/E sign? digits], first body "
         "character a digit, and returns exactly the denoted digits and scale; everything else rejected), radix != 10 rejected, accepted scales lie in the i64 range, exponent beyond i128 rejected; "
         "concrete accept/reject witnesses. The real parser is compared with model and grammar on every string up to length 6 (quick) / 7 (thorough) over the 11-character alphabet of the "
         "quantifier and on structured long inputs with byte-level mutations.",
         "Trusted: Lean kernel, the byte-level model's tie to the code (differential, exhaustive small scope), str::from_utf8, i128::from_str and num-bigint's parser as modelled (their source was read; "
         "they are exercised by the same runs).",
         "Lean 4 proof (model = grammar specification for all byte strings) + differential correspondence of the model with the code", "DESIGN.md §5 C05"),
 "C04": ("Character-level Lean model of all renderings (dynamically_format_decimal with its three notations, format_full_scale and zero padding, {:e}/{:E}, dotless exponent form, "
         "FullScaleFormatter, scientific, engineering, pad_integral) compared TEXT-EXACTLY with the real code. Kernel-checked for ALL decimals (scale an i64, fewer than 2^64 digits): the text of "
         "to_scientific_notation, to_plain_string (scale >= 0), {:e}, {:E} and Display (every notation it can choose, any thresholds and padding limit) is read back by the model of the real parser "
         "(= the grammar, by C05_parse_eq_spec) as the identical (int, scale) pair; Display of an integer written out with its zeros reads back with scale 0 and the same value (the exemption the "
         "statement names) - theorems C04_scientific_roundtrip, C04_plain_roundtrip, C04_exp_roundtrip, C04_display_roundtrip, C04_display_value, C04_display_identical_of_nonneg_scale, built on the "
         "canonical-numeral lemma specParse_canonical; C04_engineering_value (engineering notation reads back with the same value); C04_display_length (Display length <= digits + both thresholds + 30 for every scale). The reference-view entry points are tied by the correspondence (grammar oracle + "
         "real parser). One known finding (plain notation with negative scale) and one fixed defect (scientific zero).",
         "All clauses of the statement are theorems about the character-level model; that the reference-view entry points run the same formatter is tied to the code by the correspondence. Trusted: Lean kernel, the character-level model's tie to the code (text-exact differential), extractor, "
         "harness/driver, pad_integral model.",
         "Lean 4 proof (round trip of scientific/plain/{:e}/{:E}/Display for all decimals) + text-exact correspondence of the formatting model with the code", "DESIGN.md §5 C04"),
 "C16": ("Character-level Lean model of precision formatting ({:.N}, {:.Ne}, {:.NE}: round_ascii_digits with carry past nines, integer+fraction / no-integer layouts, zero right-padding with "
         "FMT_MAX_INTEGER_PADDING, exponent adjustment) and of pad_integral (sign, '+', width, fill, alignment, '0'), compared text-exactly with the real code over every flag combination. "
         "Kernel-checked for ALL inputs: C16_round_ascii_digits (the formatter's own ASCII-digit rounding - digit pair through the translated round_pair, guarded trailing-zeros flag, carry past "
         "trailing nines, all-nines overflow, removed-digit count - returns exactly the declarative rounding Spec.roundNat of C06/C07); C16_display_precision (for every storable decimal, every N and "
         "every configuration the text of {:.N} is read back by the model of the real parser as exactly d.with_scale_round(N, mode): those digits, scale N, hence exactly N digits after the point, "
         "zero-padded when fewer exist - or, when the integer padding would exceed the limit, the exponent-keeping text denotes d exactly); C16_exp_precision ({:.Ne}/{:.NE} read back with the value "
         "of the decimal rounded to N+1 significant digits); C16_exp_digit_count (that text is: sign, one digit, then for N > 0 a point and EXACTLY N digits - the rounded digits, or the number's own digits padded with zeros - then the exponent marker and a signed exponent); C16_flags_only_pad (for every combination of width, fill, alignment, 0 and + the text is the unflagged numeral preceded by the sign and "
         "surrounded only by fill characters or zeros). The correspondence checks every flag combination text-exactly against the real Formatter::pad_integral.",
         "PARTIAL only in that the pad_integral MODEL (std's formatter) is tied to the code by the text-exact correspondence rather than by a theorem. "
         "Trusted: Lean kernel, extractor (round_pair, needs_trailing_zeros), harness/driver, pad_integral model.",
         "Lean 4 proof ({:.N} = with_scale_round and {:.Ne} = precision rounding through the character-level formatter, for all inputs) + text-exact correspondence", "DESIGN.md §5 C16"),
 "C17": ("Lean model of the serde glue: Serialize = the Display model of C04, Deserialize of strings and of arbitrary-precision JSON numbers = the parser model of C05 on the literal text (digit for "
         "digit), the JSON-number adapters = serde_json's number grammar (recogniser) + the zero special case + the configured scale limit; integer/float tokens = exact conversions. Kernel-checked for "
         "ALL storable decimals: C17_string_roundtrip (from_str(Display d) is an equal decimal, and the identical digits and scale whenever the scale is non-negative), C17_jsonnum_roundtrip (the "
         "adapters' text reads back as an equal decimal whenever the scale respects the limit), C17_jsonnum_limit (beyond the limit: an error), C17_jsonnum_limit_iff (the scale-limit test decides acceptance completely: accepted with exactly the parsed pair iff within the limit or the limit is off) and C17_jsonnum_reject (unparsable text refused under every limit), C17_json_grammar (every text the JSON-number adapter emits is inside the JSON number grammar: all Display layouts, every configuration), JSON-number recogniser witnesses. Compared exactly with "
         "the real serde_json round trips (string, Value, json_num, json_num_option incl. null, malformed numbers, limit +-1, token streams of every width), and again with the library rebuilt under other configured scale limits (0 = no limit, 1, 7; thorough more) on numbers around each limit.",
         "PARTIAL: that the glue IS this composition (serde's data model, serde_json::Number's grammar accepting the Display text, integer/float tokens) is tied to the code by the correspondence only. "
         "Trusted: serde/serde_json plumbing, the JSON grammar recogniser, Lean kernel, extractor, harness/driver.",
         "Lean 4 proof (round trips as corollaries of the formatting and parsing theorems) + differential correspondence of the glue model", "DESIGN.md §5 C17"),
 "C10": ("Lean model of the repaired impl_sqrt (even total scale, floor square root, sticky digit, then with_precision_round = the declarative rounding proved in C07) and of the five entry "
         "points. Kernel-checked: the sticky lemma (10*isqrt(N)+1 lies on the same side of every multiple of ten as 10*sqrt(N), so rounding left of the sticky digit takes the decisions of the true "
         "root), evenness of the shifted scale, the exact branch, negative -> None, zero -> zero, copy-sign = abs with sign, and C10_implSqrt_spec (whatever impl_sqrt returns IS the declarative precision rounding of the sticky-extended floor root - with C10_sticky: of the real root). Every sampled result of the real code is judged by an exact certificate "
         "(squares of the rounding boundaries, all modes, carries to a new digit, power-of-ten boundaries) and compared exactly with the model. C10_sqrt_real states the property over the reals: for an inexact root the result's integer is Mathlib's Real.sqrt(n * 10^-scale), scaled to the result's own last digit, rounded as the mode says (floor / ceiling / nearest; no tie is possible); the exact case is C10_exact_branch.",
         "Modelled rather than verified: BigUint::sqrt = floor square root (Nat.sqrt in the model; the correspondence compares every result). Trusted: Lean kernel, Mathlib, extractor, harness/driver.",
         "Lean 4 proof (sticky digit, assembly, real-number reading) + exact rounding certificate oracle + differential correspondence", "DESIGN.md §5 C10"),
 "C11": ("Lean model of the repaired impl_cbrt (scale made divisible by three through the div_rem sign cases, floor cube root, exactness flag, trimming, round_pair on the first discarded digit with "
         "the translated table) and entry point. Kernel-checked for all inputs: C11_icbrt_floor (the bisection is the floor cube root), C11_decisions (the comparisons the rounding makes - tail zero, "
         "below / at the half-way point - are exactly those of the REAL cube root against the kept value and the half-way point), C11_code_rounding (the inline round_pair with its guarded "
         "trailing-zeros flag is the declarative roundUpM on that tail), C11_scale_third (total scale a multiple of three, result scale exactly a third), C11_mirror / C11_ctx_mirror (cbrt(-x) under m = "
         "-cbrt(x) under the mirrored mode), C11_implCbrt_spec (the assembled statement), zero case. Every sampled result of the real code is additionally judged by an exact certificate (cubes of the rounding boundaries, Floor/Ceiling on the "
         "signed value) and compared exactly with the model.",
         "C11_implCbrt_spec assembles them: for every non-zero magnitude, scale, precision, mode and sign the result is the floor root cut after p digits (at least four digits are dropped, "
         "icbrt_digits) incremented exactly when roundUpM says so on the virtual tail, at one third of the shifted scale. C11_cbrt_real states it over the reals: for ANY real c >= 0 with c^3 = n * 10^-scale the result's magnitude is c, scaled to the result's own last digit, rounded as mode and sign dictate (inexact case; no tie possible). "
         "Trusted: nth_root(3) = floor cube root as modelled (bisection; proved to be the floor root), Lean kernel, extractor, harness/driver.",
         "Lean 4 proof (floor root, true-root decisions, inline rounding = declarative rounding, scale, sign mirror) + exact rounding certificate oracle + differential correspondence", "DESIGN.md §5 C11"),
 "C12": ("Kernel-checked Lean theorems for every x > 0, precision p >= 1, rounding mode, digit estimate satisfying EstOK (in particular the code's own) and initial guess within 94% of 1/x: "
         "C12_loop_terminates - the iteration stops within p + 10 steps (five bring the residual below 1/10, p + 2 more below one unit of the last digit; from then on every rounded Newton step takes "
         "one of at most two values - close_values_two_set, by the decade of 1/x - so the iterate repeats or alternates within three steps); C12_accuracy_on_termination / C12_inverse_total - WHATEVER "
         "impl_inverse returns differs from 1/x by strictly less than one unit of the result's last digit (the exit iterate lies within 0.61 units of its own p+2-th digit of 1/x: with_prec has "
         "relative error <= half a unit, residuals obey e' = e^2 +- rho, fixed points and two-cycles have |e| <= 2 rho; the final rounding - the declarative rounding of C07 - moves it by at most "
         "1 - 10^-k units, k >= 2 dropped digits); the Newton step is exact and squares the residual; negation commutes with the reciprocal under the mirrored mode (C12_neg_mirror); sign copying; "
         "zero/one shortcuts; C12_exact_when_short - whenever 1/x = Y * 10^-t with 0 < Y < 10^p (at most p significant digits), what is returned IS 1/x, under every mode. Every result of the real code is judged exactly (sign, |R x - 1| < unit*x, "
         "exact when 1/x has <= p digits) and compared exactly with the model, which receives the real f64 guess through a hook and reports non-termination within 400 steps.",
         "The premise about the guess is itself a theorem on the main path: C12_guess_premise - for every magnitude of at most 1074 bits (324 digits) the model of make_inv_guess (LN_2 * exp2(-bits) in f64 through "
         "the rounding primitive, subnormal results included, converted exactly by the from-float model of C14) is a positive decimal within 94% of 1/x; C12_inverse_total_main_path then states termination and "
         "accuracy with no premise (C12_inverse_total_backup_path is the same statement for 1075..2^32 bits under the float-kernel assumption below). Modelled rather than verified: exp2 of an integer is the exact power of two and the f64 product is correctly rounded (the driver compares the modelled guess with the one the real "
         "code hands over through a hook on every such input: tag +guess-model-differs, never seen). For longer magnitudes (the back-up path: bits*LOG10_2 in f64, split into integer and fraction, 10^-fraction through libm exp10, times LN_2, as f32) "
         "C12_backup_guess_premise proves the premise up to 2^32 bits under one stated assumption about the float kernel - the f32 factor (LN_2 * exp10(-frac)) as f32 is within 2% of ln2 * 10^-frac (libm is not modelled): "
         "the f64 product with its two roundings, the split, the scale bookkeeping, and that 10^-(int+frac) equals 2^-bits up to 0.7% (log10 2 enclosed between its convergents 97879/325147 and 1838395/6107016 "
         "by two kernel-evaluated power inequalities, Mathlib's Real.log/exp) are theorems; the driver recomputes that model from the f32 factor (recomputed by the harness with the same libm) and compares it with the guess the real code hands over "
         "(tag +guess-backup-model-differs, never seen), and the premise |1 - x g| <= 94/100 itself is also observed on every generated input (tag +guess-beyond-94-percent, never seen). Trusted: Lean kernel, extractor, harness/driver.",
         "Lean 4 proof (termination and accuracy of the Newton iteration with rounding) + exact per-input test + differential correspondence", "DESIGN.md §5 C12"),
 "C13": ("Lean model of exp (series loop with exact powers/factorials, impl_division per term - whose correct rounding is the theorem of C08 -, convergence test on the value "
         "trimmed to precision+5 digits, e^-x = 1/e^x). Kernel-checked against Mathlib's Real.exp, for EVERY non-zero decimal with |x| <= 1000 (the range the property quantifies over), every precision >= 1 "
         "and the code's own f64 digit estimate: C13_accuracy_to_1000_code - whatever exp returns is strictly positive and STRICTLY LESS than one unit of its last digit away from the real e^x "
         "(0.61 units for x > 0, 2/3 for x < 0); C13_order_two_ulp - x < y never yields exp(x) exceeding exp(y) by more than two units of the last place; C13_digit_count (exactly P digits); exp(0) = 1; "
         "C13_positive for every argument whatsoever. Proof: loop invariant over term = x^(n-1), factorial = (n-1)!, running sum within relative 1/2*10^(1-T) of the exact partial sum "
         "(T = P+17+digits(x), from the correct rounding of impl_division); the stopping rule bounds the last term by 2*rho'*sum (rho' = 1/2*10^(1-(P+5))); while N <= |x| the terms still grow and the rule "
         "cannot fire (no_stop_before_peak), so the stop comes at N > |x| where the unsummed tail of the real series is at most |x| last terms (exp_tail_geom, from Mathlib's HasSum of the exponential series); "
         "the 5 guard digits absorb the factor 2|x|+3; the final with_prec(P), and for negative arguments the P-digit reciprocal, add at most 0.55 units. For |x| > 1000 the same bound holds under "
         "a decidable premise on the stop index N (101|x| <= 100(N+1): C13_accuracy_code), which the driver evaluates on every input (tag +stop-premise-fails). "
         "Termination is a theorem too: C13_terminates - for |x| <= X the loop returns within 2X + 4(P+5) + 3 passes (once n >= 2|x| every term at least halves; 4(P+5)+2 halvings later two consecutive terms "
         "are below half a grid step of the trimmed sum, and of three consecutive sums two trim to the same value - trim_two_of_three, also across a power of ten); C13_total_to_1000_code joins the two: "
         "given between 4P + 2023 and 90000 passes, exp RETURNS a strictly positive result strictly less than one unit of its last digit from e^x. "
         "Correspondence: every result of the real code is compared exactly with the model and independently judged against a rational enclosure of e^x in outward-rounded interval arithmetic "
         "(strictly positive, configured digit count, within one unit of the last digit); ordered pairs check the two-ulp order property.",
         "The per-input oracle is itself verified: C13_enclosure_sound (the interval contains Real.exp x for every decimal argument and working precision) and C13_oracle_accepts_only_one_ulp. "
         "Axioms of every theorem: propext, Classical.choice, Quot.sound only. Trusted: Lean kernel, Mathlib (Real.exp and its series), extractor, harness/driver; the accuracy theorems bound the model's fuel by 90000 passes (the driver uses 20000, the real loop is unbounded; C13_terminates shows 4P + 2023 suffice for |x| <= 1000).",
         "Lean 4 proof (loop invariant + stopping rule + Taylor tail vs Mathlib Real.exp + termination) + verified interval oracle per input + differential correspondence", "DESIGN.md §5 C13"),
 "C14": ("Kernel-checked Lean theorems: for ALL f32 and f64 bit patterns the model of try_parse_from_f32/f64 (normal path with trailing-zero reduction and powers of five, subnormal routines with the "
         "multi-limb constants regenerated from the source, +-0) denotes exactly the IEEE value (-1)^s m 2^e, NaN/inf give errors (C14_ofF32_exact, C14_ofF64_exact, C14_nan_inf); the limb constants "
         "equal 5^149 and 5^1074 (kernel evaluation). Correspondence: exact comparison on every exponent field and random patterns; bit-exact f -> decimal -> f64 round trip; to_f64 on arbitrary "
         "decimals judged in exact rational arithmetic (sign, 2^-48, subnormal step, infinity only near MAX). to_f64 itself has a BIT-EXACT executable Lean model (digit trimming, then "
         "BigUint::to_f64 / compiler-rt powi by repeated squaring / IEEE multiplication / the std float parser, all expressed through one correctly-rounded primitive rne computed in exact rational "
         "arithmetic) compared with the 64 result bits of the real code on every generated decimal; kernel-checked: C14_rne_nearest (rne is round-to-nearest: relative error <= 2^-53 in the normal "
         "range, absolute error <= 2^-1075 below it, or infinity), C14_toF64_integer (the scale-0 path is the sign bit plus the correctly rounded magnitude), C14_toF64_zero; "
         "C14_toF64_spec - for EVERY coefficient below 2^(2^32) and EVERY i64 scale, through all branches of the code (integer path, digit trimming with its saturating scale arithmetic, "
         "the powi path including overflow of powi itself, the float-parser path with the underflow shortcut, exponents beyond i32): the result is the sign bit plus a magnitude R with "
         "R infinite => exact value >= f64::MAX * (1 - 2^-48), and R finite => within 2^-48 relative of the exact value (one subnormal step 2^-1074 below 2^-1022). Built from "
         "C14_powi_ten_accurate (all 309 finite powi(10,k) within 7*2^-53, kernel-evaluated table), C14_powi_ten_overflow (infinity for every k >= 309), C14_rne_overflow_threshold, "
         "C14_digit_estimate_keeps25 (the code's f64 digit estimate never trims below 25 digits; uses 10^97879 <= 2^325147) and the error composition in exact rational arithmetic. "
         "The model contains no hardware float: every step is kernel-transparent.",
         NOTE_COMMON + " Modelled rather than verified: that BigUint::to_f64, u64 as f64, the f64 multiplication, compiler-rt powi and str::parse::<f64> are the correctly rounded operations "
         "the model says (F64.rne) - tied by the bit-exact comparison of all 64 result bits on every generated decimal; the driver also compares the rne-based digit estimate with Lean's "
         "hardware-float computation on every case (evidence tag +hardware-estimate-differs, never seen).",
         "Lean 4 proof (all bit patterns; to_f64 tolerance composed from a proved round-to-nearest primitive) + bit-exact to_f64 model + exact-rational oracle + differential correspondence", "DESIGN.md §5 C14"),
 "C20": ("Translator half: the extractor re-reads on every run which identifier each implicit-default site references (Context::default, RoundingMode::default, round, sqrt/cbrt/inverse, division, "
         "exp target and term precision, Display thresholds and integer no-padding limit) and the kernel-checked theorem C20_default_sites_ok fails if any of them is a literal instead of the "
         "generated constant; model theorems: division uses cfg.precision, Display's notation choice is the stated function of the configured thresholds, the no-padding limit is the configured "
         "threshold. Correspondence half: the harness is REBUILT under other RUST_BIGDECIMAL_* environments (quick: 3 configurations + default; thorough: every one-factor variation + random "
         "combinations); each binary must report the requested configuration, Context::default() must carry it, default-context sqrt/cbrt/inverse must equal their explicit twins, and "
         "division / sqrt / cbrt / round / exp / Display / precision formatting are compared with the models and oracles instantiated at the configured values (small-scope exhaustive division).",
         NOTE_COMMON + " cargo/build.rs rebuild the library per environment (verified through the configuration each binary reports).",
         "Lean 4 proof over the re-extracted default sites + differential correspondence under rebuilt configurations", "DESIGN.md §5 C20"),
}

NOT_YET = "check under construction in this round (not yet claimed); see DESIGN.md §11 order of work"

def main():
    hooks = subprocess.run(["git", "-C", "/repo", "log", "--format=%h %s"], capture_output=True, text=True).stdout.split("\n")
    hook_commits = [l.split()[0] for l in hooks if "verif hook" in l]
    m = {
     "version": 1,
     "setup_cmd": "./setup.sh",
     "hooks": {
      "guard": "--cfg bigdecimal_verif",
      "enable": "harness/.cargo/config.toml sets rustflags = [\"--cfg\", \"bigdecimal_verif\"]; the harness depends on /repo by path, so every cargo build of the harness rebuilds /repo's working tree with the hooks on",
      "baseline_off_cmd": "cd /repo && cargo test --workspace --no-fail-fast --offline",
      "source_commits": hook_commits,
      "add_only": True,
     },
     "engines": [{"name": "lean-proof+correspondence", "path": "check", "serves_properties": sorted(CHECKS),
       "kind_free_text": "Lean 4 theorems about an executable model of the code (lean/BigDec), a translator regenerating table-like fragments from the source (tools/extract.py), and a differential correspondence check real code vs model vs spec oracle (harness/ + lean drv)"}],
     "checks": [],
     "not_applicable": [],
     "notes": "see DESIGN.md",
    }
    for pid in sorted(CHECKS):
        text, note, tech, ref = CHECKS[pid]
        m["checks"].append({"property_id": pid, "quick_cmd": "./check %s --tier quick" % pid, "thorough_cmd": "./check %s --tier thorough" % pid,
          "evidence_file": "evidence/%s.json" % pid, "replay_cmd_template": "./check %s --replay {path}" % pid, "engine": "lean-proof+correspondence",
          "level_claimed": {"category": "proof", "text": text, "design_ref": ref}, "level_note": note, "technique": tech})
    for l in open(os.path.join(ROOT, "properties.jsonl")):
        pid = json.loads(l)["id"]
        if pid not in CHECKS:
            m["not_applicable"].append({"property_id": pid, "reason": NOT_YET})
    json.dump(m, open(os.path.join(ROOT, "MANIFEST.json"), "w"), indent=1)

main()
