#!/bin/sh
# usage: tools/verify_seeded.sh <worktree> <demo test name>
# confirms in the scratch worktree: the change compiles, the crate's own tests pass with it,
# the demonstration fails with it and passes without it.
WT="$1"; DEMO="$2"
cd "$WT" || exit 2
echo "--- with the change: crate test suite (lib + doc)"
CARGO_NET_OFFLINE=true cargo test --offline --lib 2>&1 | grep -E "^test result|FAILED|failed" 
CARGO_NET_OFFLINE=true cargo test --offline --doc 2>&1 | grep -E "^test result|FAILED|failed"
echo "--- with the change: demonstration (must fail)"
CARGO_NET_OFFLINE=true cargo test --offline --test "$DEMO" 2>&1 | grep -E "^test result|panicked" | head -3
git diff -- src > "$WT/.seeded.diff"; git apply -R "$WT/.seeded.diff"   # (not git stash: the stash is shared by all worktrees)
echo "--- without the change: demonstration (must pass)"
CARGO_NET_OFFLINE=true cargo test --offline --test "$DEMO" 2>&1 | grep -E "^test result" | head -3
git apply "$WT/.seeded.diff"; rm -f "$WT/.seeded.diff"
