#!/usr/bin/env python3
"""tools/keep_seeded.py <id> <property> <needs> <caught-by> <replay-line> : store a verified seeded change"""
import json, os, shutil, sys
sid, prop, needs, caught, replay = sys.argv[1:6]
src = "/tmp/wt/%s-out" % sid
dst = "/verif/seeded/%s" % sid
os.makedirs(dst, exist_ok=True)
shutil.copy(os.path.join(src, "patch.diff"), os.path.join(dst, "patch.diff"))
for f in os.listdir(src):
    if f.startswith("demo_"):
        shutil.copy(os.path.join(src, f), os.path.join(dst, f))
if os.path.exists(os.path.join(src, "notes.md")):
    shutil.copy(os.path.join(src, "notes.md"), os.path.join(dst, "agent_notes.md"))
meta = {
    "id": sid, "breaks_property": prop, "needs_to_manifest": needs,
    "verified_by_me": ["tools/verify_seeded.sh /tmp/wt/%s demo_%s : 861 lib tests + 20 doc tests pass with the change; demonstration fails with it and passes without it" % (sid, sid),
                       "tools/try_seeded.sh seeded/%s/patch.diff <checks> : applied to /repo, quick checks run, /repo restored" % sid],
    "caught_by": caught, "replay_reported": replay,
}
json.dump(meta, open(os.path.join(dst, "meta.json"), "w"), indent=1)
print("kept", dst)
