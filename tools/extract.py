#!/usr/bin/env python3
"""Translator for the table-like fragments of bigdecimal-rs.

Reads /repo's *current* working tree and regenerates lean/BigDec/Generated.lean:
  * the `round_pair` decision procedure and `needs_trailing_zeros` (arm-by-arm translation),
  * algorithm thresholds and literal constants at anchored sites,
  * build.rs defaults,
  * the multi-limb constants 5^149 / 5^1074 of parsing.rs,
  * which identifier every "implicit default" site references (C20).

An anchor that is not found (or an expression the translator does not understand) is emitted as
`missing` (value 0 / `none`) and listed in `Generated.missing`; the theorems that depend on it
then fail to check, which the driver reports (see DESIGN.md §7).

Deliberately dumb: regular expressions anchored on the surrounding source text, no Rust parser.
"""
import json
import os
import re
import sys

REPO = os.environ.get("VERIF_REPO", "/repo")
OUT = os.path.join(os.path.dirname(os.path.abspath(__file__)), "..", "lean", "BigDec", "Generated.lean")


def read(rel):
    try:
        with open(os.path.join(REPO, rel), encoding="utf-8") as fh:
            return fh.read()
    except OSError:
        return ""


def strip_comments(src):
    src = re.sub(r"/\*.*?\*/", "", src, flags=re.S)
    src = re.sub(r"//[^\n]*", "", src)
    return src


def fn_body(src, header_re):
    """text of the brace-balanced block following the first match of header_re"""
    m = re.search(header_re, src)
    if not m:
        return None
    i = src.find("{", m.end() - 1)
    if i < 0:
        return None
    depth = 0
    for j in range(i, len(src)):
        if src[j] == "{":
            depth += 1
        elif src[j] == "}":
            depth -= 1
            if depth == 0:
                return src[i + 1:j]
    return None


missing = []
consts = []      # (leanName, value:int, comment)
site_ids = []    # (siteName, identifier-or-literal string)


def const(name, value, comment):
    if value is None:
        missing.append(name)
        consts.append((name, 0, comment + "  -- MISSING ANCHOR"))
    else:
        consts.append((name, int(value), comment))


def find_int(src, pattern, group=1):
    if src is None:
        return None
    m = re.search(pattern, src, flags=re.S)
    if not m:
        return None
    try:
        return int(m.group(group).replace("_", ""))
    except ValueError:
        return None


def find_bound(src, pattern):
    """`pattern` has two groups: the comparison operator (< or <=) and the literal; the result is
    the exclusive bound N of `x < N` (so `x <= 20` yields 21)."""
    if src is None:
        return None
    m = re.search(pattern, src, flags=re.S)
    if not m:
        return None
    try:
        n = int(m.group(2).replace("_", ""))
    except ValueError:
        return None
    return n + 1 if m.group(1) == "<=" else n


def find_bounds(src, pattern):
    out = []
    for m in re.finditer(pattern, src or "", flags=re.S):
        n = int(m.group(2).replace("_", ""))
        out.append(n + 1 if m.group(1) == "<=" else n)
    return out


# ------------------------------------------------------------------ arithmetic/mod.rs
arith = strip_comments(read("src/arithmetic/mod.rs"))
ttu = fn_body(arith, r"fn\s+ten_to_the_uint\s*\(")
const("tenPowSmall", find_bound(ttu, r"if\s+pow\s*(<=?)\s*(\d+)\s*\{\s*return\s+BigUint::from\(10u64\.pow"),
      "ten_to_the_uint: `if pow < N` single-u64 case")
const("tenPowLinear", find_bound(ttu, r"if\s+pow\s*(<=?)\s*(\d+)\s*\{\s*let\s+ten_to_nineteen"),
      "ten_to_the_uint: `if pow < N` linear case")
const("tenPowChunkExp", find_int(ttu, r"let\s+ten_to_nineteen\s*=\s*10u64\.pow\((\d+)\)"),
      "ten_to_the_uint: exponent of the u64 chunk")
const("tenPowChunkDiv", find_int(ttu, r"pow\.div_rem\(&(\d+)\);\s*let\s+mut\s+res"),
      "ten_to_the_uint: divisor in the linear case")
const("tenPowSquareDiv", find_int(ttu, r"pow\.div_rem\(&(\d+)\);\s*let\s+x\s*="),
      "ten_to_the_uint: divisor in the recursive case")
# shape of the recursive case: x2 = x*x, x4 = x2*x2, x8 = x4*x4, res = x8*x8
shape_ok = ttu is not None and re.search(
    r"let\s+x2\s*=\s*&x\s*\*\s*&x;\s*let\s+x4\s*=\s*&x2\s*\*\s*&x2;\s*let\s+x8\s*=\s*&x4\s*\*\s*&x4;\s*let\s+res\s*=\s*&x8\s*\*\s*&x8;", ttu)
const("tenPowSquarings", 4 if shape_ok else None, "ten_to_the_uint: number of squarings in the recursive case")
# the f64 digit estimate of count_decimal_digits_uint: `(uint.bits() as f64 / LOG2_10) as u64`, optionally lowered
# by `.saturating_sub(N)` (N = 0 when absent)
def est_sub(body, var):
    if body is None:
        return None
    m = re.search(r"=\s*\(\(\s*%s\.bits\(\)\s+as\s+f64\s*/\s*LOG2_10\s*\)\s*as\s+u64\s*\)\s*\.saturating_sub\(\s*(\d+)\s*\)\s*;" % var, body)
    if m:
        return int(m.group(1))
    if re.search(r"=\s*\(\s*%s\.bits\(\)\s+as\s+f64\s*/\s*LOG2_10\s*\)\s*as\s+u64\s*;" % var, body):
        return 0
    return None
cdd = fn_body(arith, r"fn\s+count_decimal_digits_uint\s*\(")
const("countDigitsEstSub", est_sub(cdd, "uint"), "count_decimal_digits_uint: amount subtracted (saturating) from the f64 digit estimate")
mbt = fn_body(arith, r"fn\s+multiply_by_ten_to_the_uint")
const("mulTenFast", find_bound(mbt, r"if\s+pow\s*(<=?)\s*(\d+)"), "multiply_by_ten_to_the_uint fast path bound")

# ------------------------------------------------------------------ lib.rs
lib = strip_comments(read("src/lib.rs"))
grt = fn_body(lib, r"fn\s+get_rounding_term\s*\(")
const("roundingTermEstSub", est_sub(grt, "num"), "get_rounding_term: amount subtracted (saturating) from the f64 digit estimate")
ss = fn_body(lib, r"fn\s+set_scale\s*\(")
vals = find_bounds(ss, r"if\s+scale_diff\s*(<=?)\s*(\d+)")
const("setScaleFastUp", vals[0] if len(vals) >= 1 else None, "set_scale: u64 fast path bound (growing)")
const("setScaleFastDown", vals[1] if len(vals) >= 2 else None, "set_scale: u64 fast path bound (shrinking)")
tows = fn_body(lib, r"fn\s+to_owned_with_scale\s*\(")
vals = find_bounds(tows, r"if\s+scale_diff\s*(<=?)\s*(\d+)")
const("toOwnedFastUp", vals[0] if len(vals) >= 1 else None, "to_owned_with_scale: fast path bound (growing)")
const("toOwnedFastDown", vals[1] if len(vals) >= 2 else None, "to_owned_with_scale: fast path bound (shrinking)")
expb = (fn_body(lib, r"pub\s+fn\s+exp\s*\(") or "") + "\n" + (fn_body(lib, r"fn\s+exp_untrimmed\s*\(") or "")
m = re.search(r"impl_division\(term\.int_val\.clone\(\),\s*&factorial,\s*term\.scale,\s*([^;]*?)\)\s*;", expb or "")
# the local that holds digits(x) (`let precision = self.digits();` - whatever it is called) is recorded under its usual name
_m0 = re.search(r"let\s+(\w+)\s*=\s*self\.digits\(\)\s*;", expb or "")
_dv = _m0.group(1) if _m0 else "precision"
site_ids.append(("expTermPrecision", re.sub(r"\b%s\b" % _dv, "precision", re.sub(r"\s+", " ", m.group(1)).strip()) if m else "MISSING"))
const("expTermLiteral", find_int(expb, r"term\.scale,\s*(\d+)\s*\+\s*precision\)"), "exp: literal in the term precision (0 = no literal)") if False else None
# the local that holds digits(x) (`let precision = self.digits();` - whatever it is called)
_m = re.search(r"let\s+(\w+)\s*=\s*self\.digits\(\)\s*;", expb or "")
exp_digits_var = _m.group(1) if _m else "precision"
lit = find_int(expb, r"term\.scale,\s*(\d+)\s*\+\s*" + exp_digits_var + r"\)")
exp_digits_var = "precision"   # the recorded site string is normalised to this name
consts.append(("expTermLiteral", lit if lit is not None else 0, "exp: literal added to digits(x) in the per-term division precision (0: no bare literal)"))
const("expGuardDigits", find_int(expb, r"with_prec\(target_precision\s*\+\s*(\d+)\)"), "exp: guard digits of the convergence test")
m = re.search(r"let\s+target_precision\s*=\s*([A-Za-z_0-9]+)\s*;", expb or "")
site_ids.append(("expTargetPrecision", m.group(1) if m else "MISSING"))
rnd = fn_body(lib, r"pub\s+fn\s+round\s*\(&self,\s*round_digits")
m = re.search(r"with_scale_round\(round_digits,\s*([^)]*\)[^)]*\))\)", rnd or "")
site_ids.append(("roundMode", re.sub(r"\s+", "", m.group(1)) if m else "MISSING"))
for name in ("sqrt", "cbrt", "inverse"):
    b = fn_body(lib, r"pub\s+fn\s+%s\s*\(&self\)" % name)
    m = re.search(r"self\.%s_with_context\(\s*&\s*([^)]*\(\))\s*\)" % name, b or "")
    site_ids.append((name + "Ctx", re.sub(r"\s+", "", m.group(1)) if m else "MISSING"))

# ------------------------------------------------------------------ addition.rs
addi = strip_comments(read("src/arithmetic/addition.rs"))
ab = fn_body(addi, r"fn\s+add_bigdecimal_refs")
vals = re.findall(r"\.max\(0\)\.min\((\d+)\)", ab or "")
if not vals:
    # the two zero-operand blocks factored into one private helper of the same file: one clamp serves both sides
    vals = re.findall(r"\.max\(0\)\.min\((\d+)\)", addi)
    if len(vals) == 1:
        vals = [vals[0], vals[0]]
const("addZeroClampR", vals[0] if len(vals) >= 1 else None, "add_bigdecimal_refs: rhs zero scale clamp")
const("addZeroClampL", vals[1] if len(vals) >= 2 else None, "add_bigdecimal_refs: lhs zero scale clamp")

# ------------------------------------------------------------------ sqrt / cbrt / inverse
sq = strip_comments(read("src/arithmetic/sqrt.rs"))
const("sqrtExtraDigits", find_int(sq, r"let\s+extra_rounding_digit_count\s*=\s*(\d+)"), "impl_sqrt: extra rounding digits")
cb = strip_comments(read("src/arithmetic/cbrt.rs"))
const("cbrtExtraDigits", find_int(cb, r"let\s+extra_rounding_digit_count\s*=\s*(\d+)"), "impl_cbrt: extra rounding digits")
inv = strip_comments(read("src/arithmetic/inverse.rs"))
const("inverseExtraPrec", find_int(inv, r"with_prec\(max_precision\s*\+\s*(\d+)\)"), "impl_inverse: extra digits kept by the running value")

# ------------------------------------------------------------------ impl_num.rs (to_f64) / impl_cmp.rs / impl_fmt.rs
num = strip_comments(read("src/impl_num.rs"))
fmt = strip_comments(read("src/impl_fmt.rs"))
zp = fn_body(fmt, r"fn\s+zero_right_pad_integer_ascii_digits")
m = re.search(r"target_scale\.is_none\(\)\s*&&\s*integer_zero_count\s*>\s*([A-Za-z_0-9]+)", zp or "")
site_ids.append(("displayNoPadLimit", m.group(1) if m else "MISSING"))
m = re.search(r"integer_zero_count\s*>\s*([A-Za-z_0-9]+)\s*\)?\s*\{", (zp or "").split("target_scale.is_none()")[0] if zp else "")
dyn = fn_body(fmt, r"fn\s+dynamically_format_decimal")
ctxsrc = strip_comments(read("src/context.rs"))
dflt = fn_body(ctxsrc, r"impl\s+stdlib::default::Default\s+for\s+Context")
m = re.search(r"precision:\s*NonZeroU64::new\(([A-Za-z_0-9]+)\)", dflt or "")
site_ids.append(("contextDefaultPrecision", m.group(1) if m else "MISSING"))
m = re.search(r"rounding:\s*([A-Za-z_:]+\(\))", dflt or "")
site_ids.append(("contextDefaultRounding", m.group(1) if m else "MISSING"))
rsrc = strip_comments(read("src/rounding.rs"))
dfr = fn_body(rsrc, r"impl\s+Default\s+for\s+RoundingMode")
m = re.search(r"fn\s+default\(\)\s*->\s*Self\s*\{\s*([A-Za-z_0-9]+)\s*\}", dfr or "")
site_ids.append(("roundingModeDefault", m.group(1) if m else "MISSING"))
divsrc = strip_comments(read("src/impl_ops_div.rs"))
site_ids.append(("divPrecisionSites", ",".join(sorted(set(re.findall(r"let\s+max_precision\s*=\s*([A-Za-z_0-9]+)\s*;", divsrc)))) or "MISSING"))
m = re.search(r"fn\s+fmt\(&self,\s*f:\s*&mut\s+fmt::Formatter\)\s*->\s*fmt::Result\s*\{\s*dynamically_format_decimal\(\s*self\.to_ref\(\),\s*f,\s*([A-Za-z_0-9]+),\s*([A-Za-z_0-9]+),", fmt)
site_ids.append(("displayThresholds", (m.group(1) + "," + m.group(2)) if m else "MISSING"))

# impl_cmp.rs: the bit-length shortcut `b_bits.checked_add(log_scale as u64)`, optionally lowered by `.saturating_sub(N)`
cmpsrc = strip_comments(read("src/impl_cmp.rs"))
hbl = fn_body(cmpsrc, r"fn\s+highest_bit_lessthan_scaled\s*\(")
def pre_sub(body):
    if body is None or not re.search(r"let\s+log_scale\s*=\s*LOG2_10\s*\*\s*scale\s+as\s+f64\s*;", body):
        return None
    m = re.search(r"b_bits\.checked_add\(\s*\(\s*log_scale\s+as\s+u64\s*\)\s*\.saturating_sub\(\s*(\d+)\s*\)\s*\)", body)
    if m:
        return int(m.group(1))
    if re.search(r"b_bits\.checked_add\(\s*log_scale\s+as\s+u64\s*\)", body):
        return 0
    return None
const("highestBitPreSub", pre_sub(hbl), "highest_bit_lessthan_scaled: amount subtracted (saturating) from the f64 estimate of log2(10^scale)")

# ------------------------------------------------------------------ build.rs
bld = strip_comments(read("build.rs"))


def bconst(name, key, comment, default=None):
    m = re.search(r'const\s+%s:\s*&str\s*=\s*"([^"]*)"' % key, bld)
    return m.group(1) if m else None


const("buildDefaultPrecision", bconst("p", "DEFAULT_PRECISION", ""), "build.rs DEFAULT_PRECISION")
const("buildLowThreshold", bconst("l", "FMT_EXPONENTIAL_LOWER_THRESHOLD", ""), "build.rs FMT_EXPONENTIAL_LOWER_THRESHOLD")
const("buildHighThreshold", bconst("h", "FMT_EXPONENTIAL_UPPER_THRESHOLD", ""), "build.rs FMT_EXPONENTIAL_UPPER_THRESHOLD")
const("buildMaxPadding", bconst("m", "FMT_MAX_INTEGER_PADDING", ""), "build.rs FMT_MAX_INTEGER_PADDING")
const("buildSerdeMaxScale", bconst("s", "SERDE_MAX_SCALE", ""), "build.rs SERDE_MAX_SCALE")
build_mode = bconst("r", "DEFAULT_ROUNDING_MODE", "")
if build_mode not in ("Up", "Down", "Ceiling", "Floor", "HalfUp", "HalfDown", "HalfEven"):
    missing.append("buildDefaultMode")
    build_mode = "HalfEven"

# ------------------------------------------------------------------ rounding.rs : round_pair
MODES = ["Up", "Down", "Ceiling", "Floor", "HalfUp", "HalfDown", "HalfEven"]
ORD = {"Less": ".lt", "Equal": ".eq", "Greater": ".gt"}


def tr_expr(e):
    """translate a tiny Rust expression language to Lean; None if not understood"""
    e = e.strip().rstrip(",").strip()
    m = re.fullmatch(r"if\s+(.*?)\s*\{\s*(.*?)\s*\}\s*else\s*\{\s*(.*?)\s*\}", e, flags=re.S)
    if m:
        c, a, b = tr_cond(m.group(1)), tr_expr(m.group(2)), tr_expr(m.group(3))
        if None in (c, a, b):
            return None
        return "(if %s then %s else %s)" % (c, a, b)
    if e in ("up", "down", "lhs"):
        return e
    return None


def tr_cond(c):
    c = c.strip()
    table = {
        "sign == Sign::Minus": "neg",
        "sign != Sign::Minus": "(!neg)",
        "lhs % 2 == 0": "(lhs % 2 == 0)",
        "lhs % 2 == 1": "(lhs % 2 == 1)",
        "lhs % 2 != 0": "(lhs % 2 != 0)",
        "!trailing_zeros": "(!tz)",
        "trailing_zeros": "tz",
    }
    return table.get(c)


def translate_round_pair():
    body = fn_body(rsrc, r"pub\s+fn\s+round_pair\s*\(")
    if body is None:
        return None
    # early return
    m = re.search(r"if\s+rhs\s*==\s*0\s*&&\s*trailing_zeros\s*\{\s*return\s+lhs;\s*\}", body)
    if not m:
        return None
    if not re.search(r"let\s+up\s*=\s*lhs\s*\+\s*1\s*;", body) or not re.search(r"let\s+down\s*=\s*lhs\s*;", body):
        return None
    mm = re.search(r"match\s*\(\*self,\s*rhs\.cmp\(&5\)\)\s*\{", body)
    if not mm:
        return None
    arms_src = fn_body(body[mm.start():], r"match")
    if arms_src is None:
        return None
    # split arms at top-level "=>" boundaries: each arm starts with "(" pattern
    arms = re.findall(r"\(\s*([A-Za-z_]+)\s*,\s*([A-Za-z_]+)\s*\)\s*(?:if\s+([^=]*?))?\s*=>\s*(.*?)(?=,\s*\(\s*[A-Za-z_]+\s*,|\s*$)", arms_src.strip(), flags=re.S)
    if not arms:
        return None
    lines = []
    for (pm, po, guard, rhs) in arms:
        conds = []
        if pm != "_":
            if pm not in MODES:
                return None
            conds.append("m == .%s" % pm)
        if po != "_":
            if po not in ORD:
                return None
            conds.append("c == %s" % ORD[po])
        if guard and guard.strip():
            g = tr_cond(guard)
            if g is None:
                return None
            conds.append(g)
        ex = tr_expr(rhs)
        if ex is None:
            return None
        lines.append((" && ".join(conds) if conds else "true", ex))
    out = ["def roundPair (m : Mode) (neg : Bool) (lhs rhs : Nat) (tz : Bool) : Nat :=",
           "  if rhs == 0 && tz then lhs else",
           "  let up := lhs + 1",
           "  let down := lhs",
           "  let c := compare rhs 5"]
    for cond, ex in lines:
        out.append("  if %s then %s else" % (cond, ex))
    out.append("  lhs + 100  -- no arm matched (unreachable when the Rust match is exhaustive)")
    return "\n".join(out), len(lines)


# ---- fallback: a recursive translation of nested matches over `*self`, `rhs.cmp(&5)` or the pair of them ----
def _split_top(src, sep=","):
    """split at separators at brace/paren depth 0; an arm whose body ends in '}' may omit the comma"""
    parts, depth, cur = [], 0, []
    i = 0
    while i < len(src):
        ch = src[i]
        if ch in "({[":
            depth += 1
        elif ch in ")}]":
            depth -= 1
        if ch == sep and depth == 0:
            parts.append("".join(cur)); cur = []
        else:
            cur.append(ch)
            # block-bodied arm without a comma: '}' at depth 0 followed by the start of a new pattern
            if ch == "}" and depth == 0 and "=>" in "".join(cur):
                rest = src[i + 1:]
                if re.match(r"\s*[A-Za-z_(][^;{}]*?=>", rest) and not re.match(r"\s*else\b", rest):
                    parts.append("".join(cur)); cur = []
        i += 1
    if "".join(cur).strip():
        parts.append("".join(cur))
    return [x.strip() for x in parts if x.strip()]


def _tr_cond2(c, aliases):
    c = c.strip()
    if c in aliases:
        return aliases[c]
    if c.startswith("!") and c[1:].strip() in aliases:
        return "(!%s)" % aliases[c[1:].strip()]
    return tr_cond(c)


def _tr_body(e, aliases):
    e = e.strip().rstrip(",").strip()
    if e.startswith("match"):
        return _tr_match(e, aliases)
    m = re.fullmatch(r"if\s+(.*?)\s*\{\s*(.*?)\s*\}\s*else\s*\{\s*(.*?)\s*\}", e, flags=re.S)
    if m:
        c, a, b = _tr_cond2(m.group(1), aliases), _tr_body(m.group(2), aliases), _tr_body(m.group(3), aliases)
        if None in (c, a, b):
            return None
        return "(if %s then %s else %s)" % (c, a, b)
    if e.startswith("{") and e.endswith("}"):
        return _tr_body(e[1:-1], aliases)
    if e in ("up", "down", "lhs"):
        return e
    return None


def _pat_cond(pat, kind):
    """kind: 'mode' | 'ord' | 'pair'; returns a Lean Bool expression or None"""
    pat = pat.strip()
    if kind == "pair":
        m = re.fullmatch(r"\(\s*([^,]+?)\s*,\s*([^,]+?)\s*\)", pat)
        if not m:
            return None
        a, b = _pat_cond(m.group(1), "mode"), _pat_cond(m.group(2), "ord")
        if a is None or b is None:
            return None
        return " && ".join(x for x in (a, b) if x != "true") or "true"
    alts = [x.strip() for x in pat.split("|")]
    if alts == ["_"]:
        return "true"
    out = []
    for a in alts:
        if kind == "mode" and a in MODES:
            out.append("m == .%s" % a)
        elif kind == "ord" and a in ORD:
            out.append("c == %s" % ORD[a])
        else:
            return None
    return out[0] if len(out) == 1 else "(" + " || ".join(out) + ")"


def _tr_match(e, aliases):
    m = re.match(r"match\s*(\(\s*\*self\s*,\s*rhs\.cmp\(&5\)\s*\)|\*self|self|rhs\.cmp\(&5\))\s*\{", e)
    if not m:
        return None
    scrut = re.sub(r"\s+", "", m.group(1))
    kind = "pair" if scrut.startswith("(") else ("ord" if scrut.startswith("rhs") else "mode")
    inner = fn_body(e, r"match")
    if inner is None:
        return None
    out = []
    for arm in _split_top(inner):
        mm = re.match(r"(.*?)=>(.*)", arm, flags=re.S)
        if not mm:
            return None
        head, body = mm.group(1).strip(), mm.group(2)
        g = None
        mg = re.match(r"(.*?)\bif\b(.*)", head, flags=re.S)
        if mg:
            head, g = mg.group(1).strip(), _tr_cond2(mg.group(2), aliases)
            if g is None:
                return None
        pc = _pat_cond(head, kind)
        bd = _tr_body(body, aliases)
        if pc is None or bd is None:
            return None
        out.append((" && ".join(x for x in (pc, g) if x and x != "true") or "true", bd))
    expr = "(lhs + 100)"
    for cond, bd in reversed(out):
        expr = "(if %s then %s else %s)" % (cond, bd, expr)
    return expr


def translate_round_pair_nested():
    body = fn_body(rsrc, r"pub\s+fn\s+round_pair\s*\(")
    if body is None:
        return None
    if not re.search(r"if\s+rhs\s*==\s*0\s*&&\s*trailing_zeros\s*\{\s*return\s+lhs;\s*\}", body):
        return None
    if not re.search(r"let\s+up\s*=\s*lhs\s*\+\s*1\s*;", body) or not re.search(r"let\s+down\s*=\s*lhs\s*;", body):
        return None
    aliases = {}
    for mm in re.finditer(r"let\s+(\w+)\s*=\s*([^;]+);", body):
        t = tr_cond(mm.group(2))
        if t is not None:
            aliases[mm.group(1)] = t
    k = body.find("match", body.find("let down"))
    if k < 0:
        return None
    tail = body[k:]
    ex = _tr_match(tail, aliases)
    if ex is None:
        return None
    out = ["def roundPair (m : Mode) (neg : Bool) (lhs rhs : Nat) (tz : Bool) : Nat :=",
           "  if rhs == 0 && tz then lhs else",
           "  let up := lhs + 1",
           "  let down := lhs",
           "  let c := compare rhs 5",
           "  " + ex]
    return "\n".join(out), ex.count("then")


def translate_needs_tz():
    body = fn_body(rsrc, r"fn\s+needs_trailing_zeros\s*\(")
    if body is None:
        return None
    m = re.search(r"if\s+matches!\(self,\s*([A-Za-z| ]+)\)\s*\{\s*insig_digit\s*==\s*(\d+)\s*\}\s*else\s*\{\s*insig_digit\s*==\s*(\d+)\s*\}", body)
    if not m:
        return None
    ms = [x.strip() for x in m.group(1).split("|")]
    if any(x not in MODES for x in ms):
        return None
    cond = " || ".join("m == .%s" % x for x in ms)
    return ("def needsTrailingZeros (m : Mode) (insig : Nat) : Bool :=\n"
            "  if %s then insig == %s else insig == %s" % (cond, m.group(2), m.group(3)))


rp = translate_round_pair() or translate_round_pair_nested()
ntz = translate_needs_tz()

# ------------------------------------------------------------------ parsing.rs limbs


def limbs(name_re):
    src = read("src/parsing.rs")
    m = re.search(name_re + r".*?\[(.*?)\]", src, flags=re.S)
    if not m:
        return None
    toks = re.findall(r"0x[0-9a-fA-F_]+|\b\d[\d_]*\b", m.group(1))
    try:
        return [int(t.replace("_", ""), 0) for t in toks]
    except ValueError:
        return None


psrc = read("src/parsing.rs")


def limb_array_after(marker):
    i = psrc.find(marker)
    if i < 0:
        return None
    j = psrc.find("[", i)
    k = psrc.find("]", j)
    if j < 0 or k < 0:
        return None
    toks = re.findall(r"0x[0-9a-fA-F_]+|\b\d[\d_]*\b", strip_comments(psrc[j + 1:k]))
    try:
        return [int(t.replace("_", ""), 0) for t in toks]
    except ValueError:
        return None


# ------------------------------------------------------------------ operator inventory
def op_inventory():
    inv = []
    for f in ("impl_ops.rs", "impl_ops_add.rs", "impl_ops_sub.rs", "impl_ops_mul.rs", "impl_ops_div.rs", "impl_ops_rem.rs"):
        s = strip_comments(read("src/" + f))
        for m in re.finditer(r"impl(?:<[^>]*>)?\s+((?:Add|Sub|Mul|Div|Rem)(?:Assign)?)<([^>]*(?:<[^>]*>)?[^>]*)>\s+for\s+([^\{]+?)\s*\{", s):
            inv.append("%s<%s> for %s" % (m.group(1), re.sub(r"\s+", "", m.group(2)), re.sub(r"\s+", " ", m.group(3)).strip()))
        for m in re.finditer(r"^(impl_(?:add|sub|mul|div)_for_primitive)!\((\w+)\);", s, flags=re.M):
            inv.append("%s!(%s)" % (m.group(1), m.group(2)))
        for m in re.finditer(r"^(forward_\w+)!\(impl (\w+) for (\w+)", s, flags=re.M):
            inv.append("%s!(%s for %s)" % (m.group(1), m.group(2), m.group(3)))
    return inv


inventory = op_inventory()

# ------------------------------------------------------------------ emit
L = []
L.append("/- GENERATED by tools/extract.py from the current /repo working tree. DO NOT EDIT. -/")
L.append("import BigDec.Model.Types")
L.append("namespace BigDec.Generated")
L.append("open BigDec")
L.append("")
for name, value, comment in consts:
    L.append("/-- %s -/" % comment.replace("-/", "- /"))
    L.append("def %s : Nat := %d" % (name, value))
L.append("")
L.append("def buildDefaultMode : Mode := .%s" % build_mode)
L.append("")
L.append("def buildConfig : Config :=")
L.append("  { precision := buildDefaultPrecision, mode := buildDefaultMode, lowThreshold := buildLowThreshold,")
L.append("    highThreshold := buildHighThreshold, maxPadding := buildMaxPadding, serdeScaleLimit := buildSerdeMaxScale }")
L.append("")
if rp is None:
    missing.append("roundPair")
    L.append("/-- MISSING: round_pair could not be translated -/")
    L.append("def roundPair (m : Mode) (neg : Bool) (lhs rhs : Nat) (tz : Bool) : Nat := lhs + 100")
    L.append("def roundPairArms : Nat := 0")
else:
    L.append("/-- arm-by-arm translation of `RoundingMode::round_pair` (src/rounding.rs) -/")
    L.append(rp[0])
    L.append("def roundPairArms : Nat := %d" % rp[1])
L.append("")
if ntz is None:
    missing.append("needsTrailingZeros")
    L.append("def needsTrailingZeros (m : Mode) (insig : Nat) : Bool := false")
else:
    L.append("/-- translation of `RoundingMode::needs_trailing_zeros` -/")
    L.append(ntz)
L.append("")
npl = dict(site_ids).get("displayNoPadLimit", "MISSING")
if re.fullmatch(r"\d+", npl):
    npl_expr = npl
elif npl == "EXPONENTIAL_FORMAT_TRAILING_ZERO_THRESHOLD":
    npl_expr = "cfg.highThreshold"
elif npl == "FMT_MAX_INTEGER_PADDING":
    npl_expr = "cfg.maxPadding"
else:
    missing.append("displayNoPadLimit")
    npl_expr = "0"
L.append("/-- `zero_right_pad_integer_ascii_digits`: zero count above which an integer is not padded when no precision is given -/")
L.append("def noPadLimit (cfg : Config) : Nat := %s" % npl_expr)
L.append("")
etp = dict(site_ids).get("expTermPrecision", "MISSING")
m1 = re.fullmatch(r"(\d+) \+ " + exp_digits_var, etp)
m2 = re.fullmatch(r"target_precision \+ (\d+) \+ " + exp_digits_var, etp)
if m1:
    etp_expr = "%s + digits" % m1.group(1)
elif m2:
    etp_expr = "cfg.precision + %s + digits" % m2.group(1)
else:
    missing.append("expTermPrecision")
    etp_expr = "0"
L.append("/-- exp: significant digits requested from impl_division for each series term (digits = digits of x) -/")
L.append("def expTermPrecision (cfg : Config) (digits : Nat) : Nat := %s" % etp_expr)
L.append("")
L.append("/-- identifiers referenced at the implicit-default sites (C20) -/")
L.append("def defaultSites : List (String × String) := [")
L.append(",\n".join('  ("%s", "%s")' % (a, b.replace('"', "'")) for a, b in site_ids))
L.append("]")
L.append("")
f149 = limb_array_after("let five_to_149 = BigUint::from_slice")
f1074 = limb_array_after("let five_to_1074 = BigUint::from_slice")
for nm, arr in (("five149Limbs", f149), ("five1074Limbs", f1074)):
    if not arr:
        missing.append(nm)
        arr = []
    L.append("/-- u32 limbs (little endian) of the subnormal scaling constant in src/parsing.rs -/")
    L.append("def %s : List Nat := [%s]" % (nm, ", ".join(str(x) for x in arr)))
L.append("")
L.append("/-- operator `impl`s found in src/impl_ops*.rs -/")
L.append("def opInventory : List String := [")
L.append(",\n".join('  "%s"' % s.replace('"', "'") for s in inventory))
L.append("]")
L.append("")
L.append("def missing : List String := [%s]" % ", ".join('"%s"' % m for m in missing))
L.append("")
L.append("end BigDec.Generated")
text = "\n".join(L) + "\n"

out = os.path.normpath(OUT)
old = None
try:
    with open(out, encoding="utf-8") as fh:
        old = fh.read()
except OSError:
    pass
if old != text:
    with open(out, "w", encoding="utf-8") as fh:
        fh.write(text)
    changed = True
else:
    changed = False
json.dump({"missing": missing, "changed": changed, "consts": {n: v for n, v, _ in consts},
           "sites": dict(site_ids), "inventory": len(inventory)}, sys.stdout)
sys.stdout.write("\n")
