#!/usr/bin/env python3
"""validate MANIFEST.json and evidence files against the given schemas (uses the tooling venv's jsonschema)"""
import json, sys, glob
import jsonschema
m = json.load(open('/verif/MANIFEST.json'))
jsonschema.validate(m, json.load(open('/root/.vp/MANIFEST.schema.json')))
es = json.load(open('/root/.vp/EVIDENCE.schema.json'))
for f in sorted(glob.glob('/verif/evidence/*.json')):
    jsonschema.validate(json.load(open(f)), es)
    print('ok', f)
claimed = {c['property_id'] for c in m['checks']}
na = {c['property_id'] for c in m.get('not_applicable', [])}
props = [json.loads(l)['id'] for l in open('/verif/properties.jsonl')]
assert claimed | na == set(props) and not (claimed & na), (claimed, na)
print('manifest ok: claimed', sorted(claimed))
