#!/bin/bash
# usage: tools/regress_seeded.sh [ids...]   (default: every seeded/<id>/ with a patch.diff)
# re-runs the quick check of the property each kept seeded change breaks, against that change
# (git apply on /repo, ./check, git checkout -- .), and prints one line per change.
# Self-test of the machinery; not a registered check. /repo must be clean; evidence is restored.
cd /verif || exit 2
git -C /repo diff --quiet || { echo "/repo is not clean"; exit 2; }
SAVE=$(mktemp -d); cp evidence/*.json "$SAVE"/ 2>/dev/null
ids="$@"; [ -z "$ids" ] && ids=$(ls seeded | grep -E '^(C[0-9]{2}[a-z]?|F1[56]r)$')
for id in $ids; do
  [ -f seeded/$id/patch.diff ] || continue
  prop=$(grep -o '"breaks_property": "C[0-9][0-9]' seeded/$id/meta.json | grep -o 'C[0-9][0-9]')
  git -C /repo apply /verif/seeded/$id/patch.diff 2>/dev/null || { echo "$id $prop PATCH-DOES-NOT-APPLY"; continue; }
  t0=$(date +%s)
  v=$(./check $prop 2>/dev/null | grep -E "^(VIOLATION|OK )" | tail -1 | cut -c1-110)
  git -C /repo checkout -- .
  echo "$id $prop $(( $(date +%s) - t0 ))s $v"
done
cp "$SAVE"/*.json evidence/ 2>/dev/null; rm -rf "$SAVE"
python3 tools/extract.py > /dev/null
