#!/usr/bin/env python3
"""tools/mkbaseline.py : record the comment-stripped hashes of the source files the properties are anchored in,
at the state of /repo against which the hand-written model was last validated (committed as tools/source_baseline.json).
The check compares the current tree with this baseline: for a property whose anchor files changed, a quick run that
finds nothing is followed by a time-boxed exploration at thorough size (change-triggered escalation)."""
import hashlib, json, os, re, subprocess, sys
REPO = os.environ.get("VERIF_REPO", "/repo")
ROOT = os.path.dirname(os.path.dirname(os.path.abspath(__file__)))

def norm_hash(path):
    try:
        src = open(path, encoding="utf8", errors="replace").read()
    except OSError:
        return None
    src = re.sub(r"/\*.*?\*/", "", src, flags=re.S)
    src = re.sub(r"//[^\n]*", "", src)
    src = re.sub(r"\s+", " ", src)
    return hashlib.sha256(src.encode()).hexdigest()

def anchor_files():
    files = {}
    for l in open(os.path.join(ROOT, "properties.jsonl")):
        d = json.loads(l)
        files[d["id"]] = d["anchors"]["files"]
    return files

def current():
    out = {}
    for fs in anchor_files().values():
        for f in fs:
            out[f] = norm_hash(os.path.join(REPO, f))
    return out

if __name__ == "__main__":
    head = subprocess.run(["git", "-C", REPO, "rev-parse", "--short", "HEAD"], stdout=subprocess.PIPE, text=True).stdout.strip()
    dirty = subprocess.run(["git", "-C", REPO, "status", "--porcelain", "--untracked-files=no"], stdout=subprocess.PIPE, text=True).stdout.strip()
    if dirty:
        sys.exit("refusing: /repo has uncommitted changes")
    json.dump({"repo_commit": head, "files": current()}, open(os.path.join(ROOT, "tools", "source_baseline.json"), "w"), indent=1, sort_keys=True)
    print("baseline written for", head)
