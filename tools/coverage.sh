#!/bin/bash
# usage: tools/coverage.sh [tier]    (analysis aid, not a registered check)
# Builds the harness with source-coverage instrumentation (nightly toolchain, scratch dir under
# /tmp), runs every property's generator + executor for all 16 shards and the corpus, and lists
# the lines of /repo/src that no generated case executed.  Used to find blind spots of the
# generators: a change in a line nothing executes cannot be seen by the correspondence.
TIER="${1:-quick}"
S=/tmp/cov; mkdir -p $S; rm -f $S/*.profraw
B=$(ls -d ~/.rustup/toolchains/nightly-x86_64-unknown-linux-gnu/lib/rustlib/*/bin)
cd /verif/harness
LLVM_PROFILE_FILE=$S/build-%p.profraw RUSTFLAGS="--cfg bigdecimal_verif -C instrument-coverage" CARGO_NET_OFFLINE=true cargo +nightly build --release --offline --target-dir $S/target >/dev/null 2>&1 || { echo build failed; exit 2; }
H=$S/target/release/harness
set +m
for p in C01 C02 C03 C04 C05 C06 C07 C08 C09 C10 C11 C12 C13 C14 C15 C16 C17 C18 C19 C20; do
  for sh in $(seq 0 15); do
    ( LLVM_PROFILE_FILE=$S/$p-$sh.profraw $H run $p $TIER 1 $sh 16 > /dev/null 2>&1 ) &
  done
  wait
done 2>/dev/null
for f in /verif/corpus/*/*.txt; do LLVM_PROFILE_FILE=$S/corpus-%p.profraw $H exec < $f > /dev/null 2>&1; done
$B/llvm-profdata merge -sparse $S/*.profraw -o $S/all.profdata
$B/llvm-cov report $H -instr-profile=$S/all.profdata --ignore-filename-regex='(registry|rustc|harness/src)' 2>/dev/null | awk '{print $1, $8, $9, $10}'
$B/llvm-cov show $H -instr-profile=$S/all.profdata --ignore-filename-regex='(registry|rustc|harness/src)' --show-line-counts-or-regions 2>/dev/null > $S/show.txt
python3 - <<'PY'
import re
cur=None; out={}
for line in open('/tmp/cov/show.txt'):
    if line.startswith('/repo/src') and line.rstrip().endswith(':'):
        cur=line.strip()[:-1]; continue
    m=re.match(r'\s*(\d+)\|\s*0\|(.*)', line)
    if m and cur and m.group(2).strip() not in ('}',''):
        out.setdefault(cur,[]).append((int(m.group(1)), m.group(2)))
for f,ls in out.items():
    print("==",f,len(ls))
    for n,t in ls: print("  %d: %s"%(n,t[:110]))
PY
rm -f $S/*.profraw
