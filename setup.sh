#!/bin/sh
# setup_cmd: build the Lean library (model, proofs, property theorems), the driver executable
# and the Rust harness; everything from files on disk, offline.
set -e
cd "$(dirname "$0")"
export CARGO_NET_OFFLINE=true
python3 tools/extract.py > /dev/null
(cd lean && lake build 2>&1 | tail -5)
[ -f harness/Cargo.lock ] || cp /repo/Cargo.lock harness/Cargo.lock
(cd harness && cargo build --release --offline 2>&1 | tail -3)
echo "setup done"
