#!/bin/sh
# setup_cmd: build the Lean library (model, proofs, property theorems), the driver executable
# and the Rust harness; everything from files on disk, offline.
set -e
cd "$(dirname "$0")"
export CARGO_NET_OFFLINE=true
python3 tools/extract.py > /dev/null
# model, drivers and all property theorems in one parallel build (~2 min from clean on 16 cores)
(cd lean && lake build BigDec drv BigDec.Props.C01 BigDec.Props.C02 BigDec.Props.C03 BigDec.Props.C04 BigDec.Props.C05 \
   BigDec.Props.C06 BigDec.Props.C07 BigDec.Props.C08 BigDec.Props.C09 BigDec.Props.C10 BigDec.Props.C11 BigDec.Props.C12 \
   BigDec.Props.C13 BigDec.Props.C14 BigDec.Props.C15 BigDec.Props.C16 BigDec.Props.C17 BigDec.Props.C18 BigDec.Props.C19 \
   BigDec.Props.C20 2>&1 | tail -5)
[ -f harness/Cargo.lock ] || cp /repo/Cargo.lock harness/Cargo.lock
(cd harness && cargo build --release --offline 2>&1 | tail -3)
echo "setup done"
