//! C17: serde round trips — executor and generator
use crate::c05::{hex, unhex};
use crate::gen::*;
use crate::rng::Rng;
use bigdecimal::num_bigint::BigInt;
use bigdecimal::BigDecimal;
use serde::de::IntoDeserializer;
use serde::{Deserialize, Serialize};

#[derive(Serialize, Deserialize)]
struct Num { #[serde(with = "bigdecimal::serde::json_num")] v: BigDecimal }
#[derive(Serialize, Deserialize)]
struct OptNum { #[serde(with = "bigdecimal::serde::json_num_option")] v: Option<BigDecimal> }

fn render(r: Option<BigDecimal>) -> String { match r { Some(d) => format!("ok:{}", show(&d)), None => "err".to_string() } }

type VErr = serde::de::value::Error;

/// the scale limit this build of the library was configured with: the harness is compiled under the same
/// environment as the library's build script (RUST_BIGDECIMAL_SERDE_SCALE_LIMIT, default 150000)
pub fn built_scale_limit() -> u64 {
    option_env!("RUST_BIGDECIMAL_SERDE_SCALE_LIMIT").and_then(|s| s.parse().ok()).unwrap_or(150_000)
}

pub fn exec(op: &str, args: &[&str]) -> String {
    match op {
        "ser_str" => {
            let a = parse_dec(args[0]).expect("a");
            let json = serde_json::to_string(&a).expect("serialize to string");
            // also through serde_json::Value
            let via_value: BigDecimal = serde_json::from_value(serde_json::to_value(&a).unwrap()).expect("value round trip");
            let back: Option<BigDecimal> = serde_json::from_str(&json).ok();
            assert!(json.starts_with('"') && json.ends_with('"'));
            assert!(back.as_ref().map(|b| show(b) == show(&via_value)).unwrap_or(false), "Value route differs");
            format!("{}|{}", &json[1..json.len() - 1], render(back))
        }
        "de_str" => {
            let s = String::from_utf8(unhex(args[0])).expect("ascii");
            render(serde_json::from_str::<BigDecimal>(&format!("\"{}\"", s)).ok())
        }
        "de_num" => {
            let s = String::from_utf8(unhex(args[0])).expect("ascii");
            render(serde_json::from_str::<BigDecimal>(&s).ok())
        }
        "jsonnum_ser" => {
            let a = parse_dec(args[0]).expect("a");
            match serde_json::to_string(&Num { v: a }) {
                Ok(json) => {
                    let text = json.strip_prefix("{\"v\":").and_then(|s| s.strip_suffix('}')).expect("shape").to_string();
                    let back = serde_json::from_str::<Num>(&json).ok().map(|n| n.v);
                    format!("{}|{}", text, render(back))
                }
                Err(_) => "err|err".to_string(),
            }
        }
        "jsonnum_de" => {
            let s = String::from_utf8(unhex(args[0])).expect("ascii");
            render(serde_json::from_str::<Num>(&format!("{{\"v\":{}}}", s)).ok().map(|n| n.v))
        }
        "jsonopt_ser" => {
            if args[0] == "null" {
                let json = serde_json::to_string(&OptNum { v: None }).expect("ser none");
                let back = serde_json::from_str::<OptNum>(&json).expect("de none");
                return format!("{}|{}", json.strip_prefix("{\"v\":").and_then(|s| s.strip_suffix('}')).unwrap(), if back.v.is_none() { "none" } else { "some" });
            }
            let a = parse_dec(args[0]).expect("a");
            match serde_json::to_string(&OptNum { v: Some(a) }) {
                Ok(json) => {
                    let text = json.strip_prefix("{\"v\":").and_then(|s| s.strip_suffix('}')).expect("shape").to_string();
                    let back = serde_json::from_str::<OptNum>(&json).ok().and_then(|n| n.v);
                    format!("{}|{}", text, render(back))
                }
                Err(_) => "err|err".to_string(),
            }
        }
        "jsonopt_de" => {
            if args[0] == "null" {
                return match serde_json::from_str::<OptNum>("{\"v\":null}") { Ok(o) => if o.v.is_none() { "none".into() } else { "some".into() }, Err(_) => "err".into() };
            }
            let s = String::from_utf8(unhex(args[0])).expect("ascii");
            match serde_json::from_str::<OptNum>(&format!("{{\"v\":{}}}", s)) { Ok(o) => render(o.v), Err(_) => "err".to_string() }
        }
        "token" => {
            let v = args[1];
            let r: Result<BigDecimal, VErr> = match args[0] {
                "u8" => BigDecimal::deserialize(IntoDeserializer::<VErr>::into_deserializer(v.parse::<u8>().unwrap())),
                "u16" => BigDecimal::deserialize(IntoDeserializer::<VErr>::into_deserializer(v.parse::<u16>().unwrap())),
                "u32" => BigDecimal::deserialize(IntoDeserializer::<VErr>::into_deserializer(v.parse::<u32>().unwrap())),
                "u64" => BigDecimal::deserialize(IntoDeserializer::<VErr>::into_deserializer(v.parse::<u64>().unwrap())),
                "u128" => BigDecimal::deserialize(IntoDeserializer::<VErr>::into_deserializer(v.parse::<u128>().unwrap())),
                "i8" => BigDecimal::deserialize(IntoDeserializer::<VErr>::into_deserializer(v.parse::<i8>().unwrap())),
                "i16" => BigDecimal::deserialize(IntoDeserializer::<VErr>::into_deserializer(v.parse::<i16>().unwrap())),
                "i32" => BigDecimal::deserialize(IntoDeserializer::<VErr>::into_deserializer(v.parse::<i32>().unwrap())),
                "i64" => BigDecimal::deserialize(IntoDeserializer::<VErr>::into_deserializer(v.parse::<i64>().unwrap())),
                "i128" => BigDecimal::deserialize(IntoDeserializer::<VErr>::into_deserializer(v.parse::<i128>().unwrap())),
                "f32" => BigDecimal::deserialize(IntoDeserializer::<VErr>::into_deserializer(f32::from_bits(v.parse::<u32>().unwrap()))),
                "f64" => BigDecimal::deserialize(IntoDeserializer::<VErr>::into_deserializer(f64::from_bits(v.parse::<u64>().unwrap()))),
                // values of other types must be rejected with an error value (no panic, no number)
                "bool" => BigDecimal::deserialize(IntoDeserializer::<VErr>::into_deserializer(v == "1")),
                "unit" => BigDecimal::deserialize(IntoDeserializer::<VErr>::into_deserializer(())),
                "char" => BigDecimal::deserialize(IntoDeserializer::<VErr>::into_deserializer(v.chars().next().unwrap_or('x'))),
                "seq" => BigDecimal::deserialize(IntoDeserializer::<VErr>::into_deserializer(vec![1u8, 2, 3])),
                "map" => {
                    let mut m = std::collections::BTreeMap::new();
                    m.insert(v.to_string(), 1u8);
                    BigDecimal::deserialize(IntoDeserializer::<VErr>::into_deserializer(m))
                }
                _ => panic!("no such token kind"),
            };
            render(r.ok())
        }
        _ => panic!("C17: unknown op {}", op),
    }
}

fn json_number_text(rng: &mut Rng) -> String {
    let mut s = String::new();
    if rng.chance(1, 3) { s.push('-'); }
    let ml = if rng.chance(1, 15) { 2000 } else { 30 };
    let li = len_dist(rng, ml);
    if rng.chance(1, 8) { s.push('0'); } else { s.push_str(&digit_string(rng, li)); }
    if rng.chance(1, 2) { s.push('.'); let lf = len_dist(rng, 40); for _ in 0..lf { s.push((b'0' + rng.below(10) as u8) as char); } }
    if rng.chance(1, 2) {
        s.push(if rng.chance(1, 2) { 'e' } else { 'E' });
        match rng.below(3) { 0 => s.push('-'), 1 => s.push('+'), _ => {} }
        let e = match rng.below(6) { 0 => 150_000, 1 => 150_001, 2 => 149_999, 3 => rng.below(400_000), _ => rng.below(300) };
        s.push_str(&e.to_string());
    }
    // malformed variants
    match rng.below(14) {
        0 => s.insert(0, '+'), 1 => s.push('.'), 2 => s.insert(0, '0'), 3 => s.push('e'), 4 => s = s.replace('.', ".."),
        5 => s.push('_'), 6 => s.insert(0, '.'), _ => {}
    }
    s
}

pub fn generate(rng: &mut Rng, tier: &str, shard: usize, nshards: usize, out: &mut dyn FnMut(String)) {
    let thorough = tier == "thorough";
    let mut n = 0usize;
    let mut emit = |line: String, n: &mut usize| { *n += 1; if *n % nshards == shard { out(line); } };
    // a build with a non-default scale limit (the configuration stage of C17): the json_num adapters around that limit,
    // the limit travelling with every line (0 = no limit)
    let lim = built_scale_limit();
    if lim != 150_000 {
        let around: Vec<i64> = { let l = lim as i64; let mut v = vec![0, 1, -1, 2, -2, 3, 20, -20, 149_999, 150_000, 150_001, -150_001, 4_000_000, -4_000_000];
                                 for d in -2..=2 { v.push(l + d); v.push(-l + d); } v };
        let total = if thorough { 20_000 } else { 2_000 };
        for i in 0..total {
            let digits = 1 + rng.below(if i % 7 == 0 { 40 } else { 6 }) as usize;
            let v = gen_int_len(rng, digits);
            let sc = if rng.chance(2, 3) { *rng.pick(&around) } else { rng.range(-30, 30) };
            let a = dec(v, sc);
            emit(format!("C17\tjsonnum_ser\t{}\t{}", show(&a), lim), &mut n);
            // number texts with an explicit exponent, so that the scale is what the text says
            let mant = gen_int_len(rng, digits);
            let t = format!("{}e{}", mant, -sc);
            emit(format!("C17\tjsonnum_de\t{}\t{}", hex(t.as_bytes()), lim), &mut n);
        }
        return;
    }
    // exponents at the ends of the i64 scale range (the scale-limit test must not overflow on them)
    for body in ["1", "-7.5", "0", "0.25", "123456789012345678901234567890"] {
        for e in ["9223372036854775806", "9223372036854775807", "9223372036854775808", "9223372036854775809",
                  "-9223372036854775806", "-9223372036854775807", "-9223372036854775808", "170141183460469231731687303715884105727", "4294967296", "-4294967296"] {
            let t = format!("{}e{}", body, e);
            for op in ["de_num", "jsonnum_de", "jsonopt_de", "de_str"] { emit(format!("C17\t{}\t{}", op, hex(t.as_bytes())), &mut n); }
        }
    }
    let total = if thorough { 600_000 } else { 50_000 };
    for _ in 0..total {
        // decimals with 1..400 digits and scales -150000..150000 (boundary +-1), zeros with +- scales, all three Display notations
        let max_len = if rng.chance(1, 10) { 400 } else { 30 };
        let i = if rng.chance(1, 12) { BigInt::from(0) } else { gen_int(rng, max_len) };
        let scale = match rng.below(8) {
            0 => *rng.pick(&[150_000i64, 150_001, 149_999, -150_000, -150_001, -149_999]),
            1 => rng.range(-150_000, 150_000),
            2 => rng.range(-20, -1),                 // padded integers / "00"
            3 => { let l = i.to_string().trim_start_matches('-').len() as i64; l + rng.range(0, 9) }   // leading-zero threshold
            _ => rng.range(-40, 60),
        };
        let a = dec(i, scale);
        match rng.below(10) {
            0..=2 => emit(format!("C17\tser_str\t{}", show(&a)), &mut n),
            3..=5 => emit(format!("C17\tjsonnum_ser\t{}", show(&a)), &mut n),
            6 => emit(format!("C17\tjsonopt_ser\t{}", if rng.chance(1, 6) { "null".to_string() } else { show(&a) }), &mut n),
            7 => { let t = json_number_text(rng); let op = *rng.pick(&["de_num", "jsonnum_de", "jsonopt_de", "de_str"]); emit(format!("C17\t{}\t{}", op, hex(t.as_bytes())), &mut n); }
            8 => { // Display text of a decimal fed back as a JSON string / number
                let t = a.to_string(); let op = *rng.pick(&["de_str", "de_num", "jsonnum_de"]); emit(format!("C17\t{}\t{}", op, hex(t.as_bytes())), &mut n); }
            _ => {
                let kinds = ["u8","u16","u32","u64","u128","i8","i16","i32","i64","i128","f32","f64"];
                let k = *rng.pick(&kinds);
                let v = match k {
                    "f32" => format!("{}", match rng.below(6) { 0 => f32::NAN.to_bits(), 1 => f32::INFINITY.to_bits(), 2 => 1u32, 3 => 0, _ => rng.next() as u32 }),
                    "f64" => format!("{}", match rng.below(6) { 0 => f64::NAN.to_bits(), 1 => f64::NEG_INFINITY.to_bits(), 2 => 1u64, 3 => 1u64 << 63, _ => rng.next() }),
                    _ => format!("{}", crate::c01::gen_prim(rng, k)),
                };
                emit(format!("C17\ttoken\t{}\t{}", k, v), &mut n);
            }
        }
    }
    // values of other types handed over by a format: error value, never a number or a panic
    for (k, v) in [("bool", "1"), ("bool", "0"), ("unit", "0"), ("char", "7"), ("char", "x"), ("seq", "0"), ("map", "k"), ("map", "$serde_json::private::Number")] {
        emit(format!("C17\ttoken\t{}\t{}", k, v), &mut n);
    }
    emit("C17\tjsonopt_de\tnull".to_string(), &mut n);
    emit("C17\tjsonopt_ser\tnull".to_string(), &mut n);
}
