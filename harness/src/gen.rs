//! structured generators of integers / decimals, all driven by one Rng
use crate::rng::Rng;
use bigdecimal::num_bigint::{BigInt, Sign, BigUint};
use bigdecimal::BigDecimal;
use std::str::FromStr;

/// digit-length distribution: mostly short, a tail up to `max`
pub fn len_dist(rng: &mut Rng, max: usize) -> usize {
    let max = max.max(1);
    let r = rng.below(100);
    let l = if r < 30 { 1 + rng.below(5) }
        else if r < 65 { 1 + rng.below(40) }
        else if r < 90 { 1 + rng.below(300) }
        else { 1 + rng.below(max as u64) };
    (l as usize).min(max)
}

/// a decimal digit string of exactly `len` digits without leading zero, of a random *shape*
pub fn digit_string(rng: &mut Rng, len: usize) -> String {
    let len = len.max(1);
    let shape = rng.below(100);
    let mut s = String::with_capacity(len);
    if shape < 50 {
        // uniformly random digits
        s.push((b'1' + rng.below(9) as u8) as char);
        for _ in 1..len { s.push((b'0' + rng.below(10) as u8) as char); }
    } else if shape < 60 {
        for _ in 0..len { s.push('9'); }
    } else if shape < 68 {
        s.push('1');
        for _ in 1..len { s.push('0'); }
    } else if shape < 74 {
        // 10…01
        s.push('1');
        for _ in 1..len { s.push('0'); }
        if len > 1 { s.pop(); s.push('1'); }
    } else if shape < 86 {
        // random head, trailing zeros
        let tz = rng.below(len as u64) as usize;
        s.push((b'1' + rng.below(9) as u8) as char);
        for _ in 1..(len - tz) { s.push((b'0' + rng.below(10) as u8) as char); }
        for _ in 0..tz { s.push('0'); }
    } else if shape < 93 {
        // head, then a run of 9s or 0s, then a tail (ties / near-ties material)
        let c = if rng.chance(1, 2) { '9' } else { '0' };
        let head = 1 + rng.below(len as u64) as usize;
        s.push((b'1' + rng.below(9) as u8) as char);
        for _ in 1..head.min(len) { s.push((b'0' + rng.below(10) as u8) as char); }
        while s.len() + 1 < len { s.push(c); }
        if s.len() < len { s.push((b'0' + rng.below(10) as u8) as char); }
    } else {
        // 4999…9 / 5000…0 / 5000…1
        let k = rng.below(3);
        s.push(if k == 0 { '4' } else { '5' });
        for _ in 1..len { s.push(if k == 0 { '9' } else { '0' }); }
        if k == 2 && len > 1 { s.pop(); s.push('1'); }
    }
    s
}

pub fn gen_uint(rng: &mut Rng, max_len: usize) -> BigUint {
    let len = len_dist(rng, max_len);
    BigUint::from_str(&digit_string(rng, len)).unwrap()
}

/// non-zero signed integer
pub fn gen_int(rng: &mut Rng, max_len: usize) -> BigInt {
    let u = gen_uint(rng, max_len);
    let sign = if rng.chance(1, 2) { Sign::Minus } else { Sign::Plus };
    BigInt::from_biguint(sign, u)
}

pub fn gen_int_len(rng: &mut Rng, len: usize) -> BigInt {
    let u = BigUint::from_str(&digit_string(rng, len)).unwrap();
    let sign = if rng.chance(1, 2) { Sign::Minus } else { Sign::Plus };
    BigInt::from_biguint(sign, u)
}

pub fn dec(i: BigInt, scale: i64) -> BigDecimal { BigDecimal::new(i, scale) }

pub fn show(d: &BigDecimal) -> String {
    let (i, s) = d.as_bigint_and_exponent();
    format!("{}@{}", i, s)
}

pub fn parse_dec(s: &str) -> Option<BigDecimal> {
    let (i, sc) = s.split_once('@')?;
    Some(BigDecimal::new(BigInt::from_str(i).ok()?, i64::from_str(sc).ok()?))
}

/// ten to the k as BigInt
pub fn pow10(k: u64) -> BigInt {
    let mut s = String::with_capacity(k as usize + 1);
    s.push('1');
    for _ in 0..k { s.push('0'); }
    BigInt::from_str(&s).unwrap()
}
