//! C12: reciprocal — executor and generator
use crate::c01::with_prim;
use crate::c06::MODES;
use bigdecimal::num_traits::ToPrimitive;
use crate::c10::ctx;
use crate::gen::*;
use crate::rng::Rng;
use bigdecimal::num_bigint::BigInt;
use bigdecimal::verif_hooks as hooks;
use bigdecimal::BigDecimal;

fn mirror(m: &str) -> &str { match m { "Floor" => "Ceiling", "Ceiling" => "Floor", x => x } }

pub fn exec(op: &str, args: &[&str]) -> String {
    match op {
        "inv" => {
            let a = parse_dec(args[0]).expect("a");
            show(&a.inverse_with_context(&ctx(args[1], args[2])))
        }
        "mirror" => {
            let a = parse_dec(args[0]).expect("a");
            let x = a.inverse_with_context(&ctx(args[1], args[2]));
            let y = (-a).inverse_with_context(&ctx(args[1], args[3]));
            format!("{}|{}", show(&x), show(&y))
        }
        "oneover" => {
            // `1 / x` with a primitive one routes to inverse() (src/impl_ops.rs)
            let a = parse_dec(args[1]).expect("a");
            let (pt, own) = args[0].split_once(':').expect("form");
            let one = BigInt::from(1);
            let r = match (pt, own) {
                ("f32", "val") => 1.0f32 / a.clone(),
                ("f32", "ref") => 1.0f32 / &a,
                ("f64", "val") => 1.0f64 / a.clone(),
                ("f64", "ref") => 1.0f64 / &a,
                (_, "val") => with_prim!(pt, one, |p| p / a.clone()),
                (_, _) => with_prim!(pt, one, |p| p / &a),
            };
            show(&r)
        }
        _ => panic!("C12: unknown op {}", op),
    }
}

fn guess_of(a: &BigDecimal) -> BigDecimal {
    let (i, s) = a.as_bigint_and_exponent();
    hooks::make_inv_guess(i.magnitude().bits(), s)
}

/// the guess field of an `inv` line: the real guess (hook); on the back-up path (more than 1074 bits) followed by
/// `~<bits of (LN_2 * exp10(-frac)) as f32>`, the float kernel recomputed here with the same libm, so that the driver can
/// run the model of the bookkeeping around it (`invGuessBackup`, theorem `C12_backup_guess_premise`)
fn guess_field(a: &BigDecimal) -> String {
    let (i, s) = a.as_bigint_and_exponent();
    let bits = i.magnitude().bits();
    let g = hooks::make_inv_guess(bits, s);
    if bits > 1074 {
        let approx = bits as f64 * std::f64::consts::LOG10_2;
        let frac = approx - approx.trunc();
        let v32 = (std::f64::consts::LN_2 * libm::exp10(-frac)) as f32;
        format!("{}~{}", show(&g), v32.to_bits())
    } else {
        show(&g)
    }
}

pub fn generate(rng: &mut Rng, tier: &str, shard: usize, nshards: usize, out: &mut dyn FnMut(String)) {
    let total = if tier == "thorough" { 800_000 } else { 50_000 };
    for i in 0..total {
        let keep = i % nshards == shard;
        let p: u64 = match rng.below(6) { 0 => 100, 1 | 2 => 1 + rng.below(5), 3 => 1 + rng.below(150), _ => 1 + rng.below(40) };
        let scale = rng.range(-2000, 2000);
        let v: BigInt = match rng.below(11) {
            10 => { // bit counts at the f64 exponent limits (2^-1022 normal, 2^-1074 subnormal, underflow)
                let bits = 1018 + rng.below(64);
                let hi = BigInt::from(1) << (bits as usize);
                if rng.chance(1, 4) { hi } else { hi.clone() + BigInt::from(gen_int_len(rng, 40).magnitude().clone()) % hi } }
            0 | 1 | 2 => { // terminating reciprocals 2^i 5^j
                let i2 = rng.below(61) as u32; let j = rng.below(31) as u32;
                BigInt::from(2).pow(i2) * BigInt::from(5).pow(j) }
            3 => pow10(rng.below(80)),
            4 => pow10(1 + rng.below(80)) - BigInt::from(1),      // 99..9 : reciprocal just above a power of ten
            5 => pow10(1 + rng.below(80)) + BigInt::from(1),      // 100..01
            6 => { let l = 300 + rng.below(1200) as usize; BigInt::from(gen_int_len(rng, l).magnitude().clone()) }  // drives the guess through f64 underflow
            _ => { let ml = if rng.chance(1, 10) { 1500 } else { 40 }; BigInt::from(gen_int(rng, ml).magnitude().clone()) }
        };
        let a = dec(if rng.chance(1, 2) { -v } else { v }, scale);
        let (mn, _) = *rng.pick(MODES);
        let do_mirror = rng.chance(1, 6);
        let one_form = if rng.chance(1, 12) {
            let pt = *rng.pick(&["u8", "u16", "u32", "u64", "u128", "i8", "i16", "i32", "i64", "i128", "f32", "f64"]);
            Some(format!("{}:{}", pt, if rng.chance(1, 2) { "val" } else { "ref" })) } else { None };
        if !keep { continue; }
        if let Some(f) = one_form {
            out(format!("C12\toneover\t{}\t{}\t{}", f, show(&a), show(&guess_of(&a))));
            continue;
        }
        if do_mirror { out(format!("C12\tmirror\t{}\t{}\t{}\t{}", show(&a), p, mn, mirror(mn))); }
        else { out(format!("C12\tinv\t{}\t{}\t{}\t{}", show(&a), p, mn, guess_field(&a))); }
    }
}
