//! C13: exp — executor and generator
use crate::gen::*;
use crate::rng::Rng;
use bigdecimal::num_bigint::BigInt;
use bigdecimal::verif_hooks as hooks;
use bigdecimal::BigDecimal;

pub fn exec(op: &str, args: &[&str]) -> String {
    match op {
        "exp" => show(&parse_dec(args[0]).expect("x").exp()),
        "mono" => {
            let x = parse_dec(args[0]).expect("x");
            let y = parse_dec(args[1]).expect("y");
            format!("{}|{}", show(&x.exp()), show(&y.exp()))
        }
        _ => panic!("C13: unknown op {}", op),
    }
}

pub fn gen_arg(rng: &mut Rng, max_abs: i64) -> BigDecimal {
    let d = gen_arg_raw(rng, max_abs);
    if d.abs() > BigDecimal::from(max_abs) { dec(BigInt::from(rng.range(-max_abs, max_abs)), 0) } else { d }
}

fn gen_arg_raw(rng: &mut Rng, max_abs: i64) -> BigDecimal {
    match rng.below(8) {
        0 => dec(BigInt::from(rng.range(-max_abs, max_abs)), 0),
        1 => { // near k * ln 10 where e^x crosses a power of ten
            let k = rng.range(-(max_abs * 43 / 100), max_abs * 43 / 100);
            let ln10 = BigInt::parse_bytes(b"2302585092994045684017991454684364207601101488628772976033327900967572609677352480235997205089598298341967784042286", 10).unwrap();
            let d = 60 + rng.below(50);
            let v = ln10 * BigInt::from(k) / pow10(114 - d) + BigInt::from(rng.range(-3, 3));
            dec(v, d as i64) }
        2 => { // tiny magnitudes down to 1e-60
            let l = 1 + rng.below(40) as usize; let s = l as i64 + rng.range(0, 60);
            dec(gen_int_len(rng, l), s) }
        3 => { // long digit strings
            let l = 20 + rng.below(40) as usize; dec(gen_int_len(rng, l), l as i64 - rng.range(0, 3)) }
        _ => { // 1..40 digits, magnitude up to max_abs
            let l = 1 + rng.below(40) as usize;
            let i = gen_int_len(rng, l);
            let int_digits = rng.range(-2, if max_abs >= 1000 { 3 } else { 2 });
            let d = dec(i, l as i64 - int_digits);
            // clamp magnitude
            if d.abs() > BigDecimal::from(max_abs) { dec(BigInt::from(rng.range(-max_abs, max_abs)), 0) } else { d }
        }
    }
}

pub fn generate(rng: &mut Rng, tier: &str, shard: usize, nshards: usize, out: &mut dyn FnMut(String)) {
    let thorough = tier == "thorough";
    let prec = hooks::default_precision();
    let max_abs: i64 = if thorough { 1000 } else { 120 };
    let mut n = 0usize;
    let mut emit = |line: String, n: &mut usize| { *n += 1; if *n % nshards == shard { out(line); } };
    // integers -120..120 exhaustively; thorough adds every 37th integer out to +-1000 (each of those
    // costs seconds: thousands of series terms on thousand-digit numbers)
    for k in -120i64..=120 { emit(format!("C13\texp\t{}@0\t{}", k, prec), &mut n); }
    if thorough {
        let mut k = 121i64;
        while k <= 1000 { emit(format!("C13\texp\t{}@0\t{}", k, prec), &mut n); emit(format!("C13\texp\t{}@0\t{}", -k, prec), &mut n); k += 37; }
        emit(format!("C13\texp\t1000@0\t{}", prec), &mut n); emit(format!("C13\texp\t-1000@0\t{}", prec), &mut n);
    }
    let total = if thorough { 4_000 } else { 1_500 };
    for _ in 0..total {
        // thorough: most arguments within +-150, one in ten out to +-400, one in forty out to +-1000
        // (model and enclosure oracle cost minutes per thousand of the large ones)
        let lim = if !thorough { max_abs } else if rng.chance(1, 40) { 1000 } else if rng.chance(1, 10) { 400 } else { 150 };
        let x = gen_arg(rng, lim);
        if rng.chance(1, 8) {
            // ordered pair: y slightly above x
            let (xi, xs) = x.as_bigint_and_exponent();
            let y = dec(xi * BigInt::from(1000) + BigInt::from(rng.range(1, 999)), xs + 3);
            emit(format!("C13\tmono\t{}\t{}\t{}", show(&x), show(&y), prec), &mut n);
        } else {
            emit(format!("C13\texp\t{}\t{}", show(&x), prec), &mut n);
        }
    }
}
