//! C07: rounding to a precision — executor and generator
use crate::c06::{gen_cut_number, mode_of, MODES};
use crate::gen::*;
use crate::rng::Rng;
use bigdecimal::num_bigint::BigInt;
use bigdecimal::Context;
use std::num::NonZeroU64;

fn ctx(p: &str, mode: &str) -> Context {
    // the three ways to build a context must give the same context: new(), and the builders
    // with_prec / with_precision + with_rounding_mode on the default context
    let pn: u64 = p.parse().expect("p");
    let nz = NonZeroU64::new(pn).expect("p>0");
    let c = match pn % 3 {
        0 => Context::new(nz, mode_of(mode)),
        1 => Context::default().with_prec(pn).expect("with_prec").with_rounding_mode(mode_of(mode)),
        _ => Context::default().with_rounding_mode(mode_of(mode)).with_precision(nz),
    };
    assert!(c.precision() == nz && c.rounding_mode() == mode_of(mode), "context builders disagree");
    assert!(Context::default().with_prec(0u8).is_none(), "with_prec(0) must be None");
    c
}

pub fn exec(op: &str, args: &[&str]) -> String {
    match op {
        "wpr" => {
            let a = parse_dec(args[0]).expect("a");
            let p = NonZeroU64::new(args[1].parse().unwrap()).unwrap();
            show(&a.with_precision_round(p, mode_of(args[2])))
        }
        "ctx_round" => show(&ctx(args[1], args[2]).round_decimal(parse_dec(args[0]).expect("a"))),
        "ctx_round_ref" => show(&ctx(args[1], args[2]).round_decimal_ref(&parse_dec(args[0]).expect("a"))),
        "ctx_round_bigint" => {
            let a = parse_dec(args[0]).expect("a");
            let i: BigInt = a.as_bigint_and_exponent().0;
            show(&ctx(args[1], args[2]).round_decimal_ref(&i))
        }
        "ref_round" => show(&parse_dec(args[0]).expect("a").to_ref().round_with_context(&ctx(args[1], args[2]))),
        "add_refs" => {
            let a = parse_dec(args[0]).expect("a");
            let b = parse_dec(args[1]).expect("b");
            show(&ctx(args[2], args[3]).add_refs(&a, &b))
        }
        "add_refs_into" => {
            let a = parse_dec(args[0]).expect("a");
            let b = parse_dec(args[1]).expect("b");
            let mut dest = bigdecimal::BigDecimal::from(7);
            ctx(args[2], args[3]).add_refs_into(a.to_ref(), &b, &mut dest);
            show(&dest)
        }
        "withprec" => show(&parse_dec(args[0]).expect("a").with_prec(args[1].parse().unwrap())),
        _ => panic!("C07: unknown op {}", op),
    }
}

pub fn generate(rng: &mut Rng, tier: &str, shard: usize, nshards: usize, out: &mut dyn FnMut(String)) {
    let thorough = tier == "thorough";
    let total = if thorough { 1_500_000 } else { 90_000 };
    for i in 0..total {
        let keep = i % nshards == shard;
        let max_len = if rng.chance(1, 12) { 3000 } else { 50 };
        let len = len_dist(rng, max_len);
        // p relative to the digit count: emphasise p = len-1, len, len+1, 1, and ties at the cut
        let p: usize = match rng.below(10) {
            0 => len.saturating_sub(1).max(1),
            1 => len,
            2 => len + 1,
            3 => 1,
            4 => len + 1 + rng.below(5) as usize,
            _ => 1 + rng.below(len as u64 + 5) as usize,
        };
        let k = len.saturating_sub(p);
        let int = if rng.chance(1, 50) { BigInt::from(0) }
            else if rng.chance(1, 3) { gen_int_len(rng, len) }
            else { gen_cut_number(rng, len - k, k) };
        let scale = rng.range(-3000, 3000);
        let a = dec(int, scale);
        let (mn, _) = *rng.pick(MODES);
        let which = rng.below(12);
        if which < 4 {
            if keep { out(format!("C07\twpr\t{}\t{}\t{}", show(&a), p, mn)); }
        } else if which < 8 {
            let op = *rng.pick(&["ctx_round", "ctx_round_ref", "ref_round"]);
            if keep { out(format!("C07\t{}\t{}\t{}\t{}", op, show(&a), p, mn)); }
        } else if which == 8 {
            let ai = dec(a.as_bigint_and_exponent().0, 0);
            if keep { out(format!("C07\tctx_round_bigint\t{}\t{}\t{}", show(&ai), p, mn)); }
        } else if which < 11 {
            // sums whose exact value needs more than p digits
            let gap = crate::c01::gen_gap(rng, 60) as i64;
            let sg = if rng.chance(1, 2) { gap } else { -gap };
            let b = crate::c01::gen_operand(rng, 60, scale + sg);
            let op = if rng.chance(1, 2) { "add_refs" } else { "add_refs_into" };
            if keep { out(format!("C07\t{}\t{}\t{}\t{}\t{}", op, show(&a), show(&b), p, mn)); }
        } else {
            if keep { out(format!("C07\twithprec\t{}\t{}", show(&a), p)); }
        }
    }
    // with_prec: dedicated sweep (both signs of the same magnitude)
    let total = if thorough { 400_000 } else { 30_000 };
    for i in 0..total {
        let keep = i % nshards == shard;
        let ml = if rng.chance(1, 15) { 3000 } else { 40 };
        let len = len_dist(rng, ml);
        let p = 1 + rng.below(len as u64 + 4) as usize;
        let k = len.saturating_sub(p);
        let int = gen_cut_number(rng, len - k, k);
        let scale = rng.range(-300, 300);
        if keep {
            out(format!("C07\twithprec\t{}@{}\t{}", int, scale, p));
            out(format!("C07\twithprec\t{}@{}\t{}", -int, scale, p));
        }
    }
}
