//! C01: add / sub / mul exact for every operand form — executor and generator
use crate::gen::*;
use crate::rng::Rng;
use bigdecimal::num_bigint::BigInt;
use bigdecimal::num_traits::ToPrimitive;
use bigdecimal::{BigDecimal, Zero};

pub const PRIMS: &[&str] = &["u8", "u16", "u32", "u64", "u128", "i8", "i16", "i32", "i64", "i128"];

macro_rules! with_prim {
    ($pt:expr, $v:expr, |$p:ident| $body:expr) => {{
        let v: BigInt = $v;
        match $pt {
            "u8" => { let $p = v.to_u8().expect("prim range"); $body }
            "u16" => { let $p = v.to_u16().expect("prim range"); $body }
            "u32" => { let $p = v.to_u32().expect("prim range"); $body }
            "u64" => { let $p = v.to_u64().expect("prim range"); $body }
            "u128" => { let $p = v.to_u128().expect("prim range"); $body }
            "i8" => { let $p = v.to_i8().expect("prim range"); $body }
            "i16" => { let $p = v.to_i16().expect("prim range"); $body }
            "i32" => { let $p = v.to_i32().expect("prim range"); $body }
            "i64" => { let $p = v.to_i64().expect("prim range"); $body }
            "i128" => { let $p = v.to_i128().expect("prim range"); $body }
            other => panic!("unknown primitive type {}", other),
        }
    }};
}
pub(crate) use with_prim;

pub fn bi(d: &BigDecimal) -> BigInt {
    let (i, s) = d.as_bigint_and_exponent();
    assert_eq!(s, 0, "integer operand must have scale 0");
    i
}

/// every (op, lhs form, rhs form) for which an `impl` exists
pub const OPS: &[(&str, &str, &str)] = &[
    ("add","D","D"),("add","D","RD"),("add","D","Ref"),("add","D","BI"),("add","D","RBI"),
    ("add","RD","D"),("add","RD","RD"),("add","RD","Ref"),("add","RD","BI"),("add","RD","RBI"),
    ("add","Ref","D"),("add","Ref","RD"),("add","Ref","Ref"),("add","Ref","BI"),("add","Ref","RBI"),
    ("add","BI","D"),("add","BI","RD"),("add","BI","Ref"),
    ("add","RBI","D"),("add","RBI","RD"),("add","RBI","Ref"),
    ("add","D","P"),("add","D","RP"),("add","RD","P"),("add","RD","RP"),("add","Ref","P"),("add","Ref","RP"),
    ("add","P","D"),("add","P","RD"),("add","RP","D"),("add","RP","RD"),
    ("addassign","D","D"),("addassign","D","RD"),("addassign","D","Ref"),("addassign","D","BI"),("addassign","D","RBI"),
    ("addassign","D","P"),("addassign","D","RP"),
    ("sub","D","D"),("sub","D","RD"),("sub","D","Ref"),("sub","D","BI"),("sub","D","RBI"),
    ("sub","RD","D"),("sub","RD","RD"),("sub","RD","Ref"),("sub","RD","BI"),("sub","RD","RBI"),
    ("sub","Ref","D"),("sub","Ref","RD"),("sub","Ref","Ref"),("sub","Ref","BI"),("sub","Ref","RBI"),
    ("sub","BI","D"),("sub","RBI","D"),("sub","BI","Ref"),("sub","RBI","Ref"),
    ("sub","D","P"),("sub","D","RP"),("sub","RD","P"),("sub","RD","RP"),
    ("sub","P","D"),("sub","P","RD"),("sub","RP","D"),("sub","RP","RD"),
    ("subassign","D","D"),("subassign","D","RD"),("subassign","D","Ref"),("subassign","D","BI"),("subassign","D","RBI"),
    ("subassign","D","P"),("subassign","D","RP"),
    ("mul","D","D"),("mul","D","RD"),("mul","RD","D"),("mul","RD","RD"),
    ("mul","D","BI"),("mul","D","RBI"),("mul","RD","BI"),("mul","RD","RBI"),
    ("mul","BI","D"),("mul","RBI","D"),("mul","BI","RD"),("mul","RBI","RD"),
    ("mul","D","P"),("mul","D","RP"),("mul","RD","P"),("mul","RD","RP"),
    ("mul","P","D"),("mul","P","RD"),("mul","RP","D"),("mul","RP","RD"),
    ("mulassign","D","D"),("mulassign","D","RD"),("mulassign","D","BI"),("mulassign","D","RBI"),
    ("mulassign","D","P"),("mulassign","D","RP"),
];

pub fn exec_bin(op: &str, lf: &str, rf: &str, a: &BigDecimal, b: &BigDecimal, pt: &str) -> BigDecimal {
    match (op, lf, rf) {
        // ---------------------------------------------------------------- add
        ("add","D","D") => a.clone() + b.clone(),
        ("add","D","RD") => a.clone() + b,
        ("add","D","Ref") => a.clone() + b.to_ref(),
        ("add","D","BI") => a.clone() + bi(b),
        ("add","D","RBI") => a.clone() + &bi(b),
        ("add","RD","D") => a + b.clone(),
        ("add","RD","RD") => a + b,
        ("add","RD","Ref") => a + b.to_ref(),
        ("add","RD","BI") => a + bi(b),
        ("add","RD","RBI") => a + &bi(b),
        ("add","Ref","D") => a.to_ref() + b.clone(),
        ("add","Ref","RD") => a.to_ref() + b,
        ("add","Ref","Ref") => a.to_ref() + b.to_ref(),
        ("add","Ref","BI") => a.to_ref() + bi(b),
        ("add","Ref","RBI") => a.to_ref() + &bi(b),
        ("add","BI","D") => bi(a) + b.clone(),
        ("add","BI","RD") => bi(a) + b,
        ("add","BI","Ref") => bi(a) + b.to_ref(),
        ("add","RBI","D") => &bi(a) + b.clone(),
        ("add","RBI","RD") => &bi(a) + b,
        ("add","RBI","Ref") => &bi(a) + b.to_ref(),
        ("add","D","P") => with_prim!(pt, bi(b), |p| a.clone() + p),
        ("add","D","RP") => with_prim!(pt, bi(b), |p| a.clone() + &p),
        ("add","RD","P") => with_prim!(pt, bi(b), |p| a + p),
        ("add","RD","RP") => with_prim!(pt, bi(b), |p| a + &p),
        ("add","Ref","P") => with_prim!(pt, bi(b), |p| a.to_ref() + p),
        ("add","Ref","RP") => with_prim!(pt, bi(b), |p| a.to_ref() + &p),
        ("add","P","D") => with_prim!(pt, bi(a), |p| p + b.clone()),
        ("add","P","RD") => with_prim!(pt, bi(a), |p| p + b),
        ("add","RP","D") => with_prim!(pt, bi(a), |p| &p + b.clone()),
        ("add","RP","RD") => with_prim!(pt, bi(a), |p| &p + b),
        ("addassign","D","D") => { let mut x = a.clone(); x += b.clone(); x }
        ("addassign","D","RD") => { let mut x = a.clone(); x += b; x }
        ("addassign","D","Ref") => { let mut x = a.clone(); x += b.to_ref(); x }
        ("addassign","D","BI") => { let mut x = a.clone(); x += bi(b); x }
        ("addassign","D","RBI") => { let mut x = a.clone(); x += &bi(b); x }
        ("addassign","D","P") => with_prim!(pt, bi(b), |p| { let mut x = a.clone(); x += p; x }),
        ("addassign","D","RP") => with_prim!(pt, bi(b), |p| { let mut x = a.clone(); x += &p; x }),
        // ---------------------------------------------------------------- sub
        ("sub","D","D") => a.clone() - b.clone(),
        ("sub","D","RD") => a.clone() - b,
        ("sub","D","Ref") => a.clone() - b.to_ref(),
        ("sub","D","BI") => a.clone() - bi(b),
        ("sub","D","RBI") => a.clone() - &bi(b),
        ("sub","RD","D") => a - b.clone(),
        ("sub","RD","RD") => a - b,
        ("sub","RD","Ref") => a - b.to_ref(),
        ("sub","RD","BI") => a - bi(b),
        ("sub","RD","RBI") => a - &bi(b),
        ("sub","Ref","D") => a.to_ref() - b.clone(),
        ("sub","Ref","RD") => a.to_ref() - b,
        ("sub","Ref","Ref") => a.to_ref() - b.to_ref(),
        ("sub","Ref","BI") => a.to_ref() - bi(b),
        ("sub","Ref","RBI") => a.to_ref() - &bi(b),
        ("sub","BI","D") => bi(a) - b.clone(),
        ("sub","RBI","D") => &bi(a) - b.clone(),
        ("sub","BI","Ref") => bi(a) - b.to_ref(),
        ("sub","RBI","Ref") => &bi(a) - b.to_ref(),
        ("sub","D","P") => with_prim!(pt, bi(b), |p| a.clone() - p),
        ("sub","D","RP") => with_prim!(pt, bi(b), |p| a.clone() - &p),
        ("sub","RD","P") => with_prim!(pt, bi(b), |p| a - p),
        ("sub","RD","RP") => with_prim!(pt, bi(b), |p| a - &p),
        ("sub","P","D") => with_prim!(pt, bi(a), |p| p - b.clone()),
        ("sub","P","RD") => with_prim!(pt, bi(a), |p| p - b),
        ("sub","RP","D") => with_prim!(pt, bi(a), |p| &p - b.clone()),
        ("sub","RP","RD") => with_prim!(pt, bi(a), |p| &p - b),
        ("subassign","D","D") => { let mut x = a.clone(); x -= b.clone(); x }
        ("subassign","D","RD") => { let mut x = a.clone(); x -= b; x }
        ("subassign","D","Ref") => { let mut x = a.clone(); x -= b.to_ref(); x }
        ("subassign","D","BI") => { let mut x = a.clone(); x -= bi(b); x }
        ("subassign","D","RBI") => { let mut x = a.clone(); x -= &bi(b); x }
        ("subassign","D","P") => with_prim!(pt, bi(b), |p| { let mut x = a.clone(); x -= p; x }),
        ("subassign","D","RP") => with_prim!(pt, bi(b), |p| { let mut x = a.clone(); x -= &p; x }),
        // ---------------------------------------------------------------- mul
        ("mul","D","D") => a.clone() * b.clone(),
        ("mul","D","RD") => a.clone() * b,
        ("mul","RD","D") => a * b.clone(),
        ("mul","RD","RD") => a * b,
        ("mul","D","BI") => a.clone() * bi(b),
        ("mul","D","RBI") => a.clone() * &bi(b),
        ("mul","RD","BI") => a * bi(b),
        ("mul","RD","RBI") => a * &bi(b),
        ("mul","BI","D") => bi(a) * b.clone(),
        ("mul","RBI","D") => &bi(a) * b.clone(),
        ("mul","BI","RD") => bi(a) * b,
        ("mul","RBI","RD") => &bi(a) * b,
        ("mul","D","P") => with_prim!(pt, bi(b), |p| a.clone() * p),
        ("mul","D","RP") => with_prim!(pt, bi(b), |p| a.clone() * &p),
        ("mul","RD","P") => with_prim!(pt, bi(b), |p| a * p),
        ("mul","RD","RP") => with_prim!(pt, bi(b), |p| a * &p),
        ("mul","P","D") => with_prim!(pt, bi(a), |p| p * b.clone()),
        ("mul","P","RD") => with_prim!(pt, bi(a), |p| p * b),
        ("mul","RP","D") => with_prim!(pt, bi(a), |p| &p * b.clone()),
        ("mul","RP","RD") => with_prim!(pt, bi(a), |p| &p * b),
        ("mulassign","D","D") => { let mut x = a.clone(); x *= b.clone(); x }
        ("mulassign","D","RD") => { let mut x = a.clone(); x *= b; x }
        ("mulassign","D","BI") => { let mut x = a.clone(); x *= bi(b); x }
        ("mulassign","D","RBI") => { let mut x = a.clone(); x *= &bi(b); x }
        ("mulassign","D","P") => with_prim!(pt, bi(b), |p| { let mut x = a.clone(); x *= p; x }),
        ("mulassign","D","RP") => with_prim!(pt, bi(b), |p| { let mut x = a.clone(); x *= &p; x }),
        _ => panic!("no such overload {} {} {}", op, lf, rf),
    }
}

pub fn exec_un(name: &str, a: &BigDecimal) -> BigDecimal {
    use std::ops::Neg;
    match name {
        "neg" => a.clone().neg(),
        "negref" => (&a.clone()).neg(),
        "abs" => a.abs(),
        "abs_signed" => bigdecimal::num_traits::Signed::abs(a),
        "abs_ref" => a.to_ref().abs().to_owned(),
        "neg_dref" => a.to_ref().neg().to_owned(),
        "signum" => bigdecimal::num_traits::Signed::signum(a),
        // Signed::is_positive / is_negative and Default, reported as the decimals 1 / 0 (and the default value)
        "is_pos" => BigDecimal::from(bigdecimal::num_traits::Signed::is_positive(a) as u8),
        "is_neg" => BigDecimal::from(bigdecimal::num_traits::Signed::is_negative(a) as u8),
        "default_plus" => a + BigDecimal::default(),
        "abs_sub0" => bigdecimal::num_traits::Signed::abs_sub(a, &BigDecimal::from(0)),
        "double" => a.double(),
        "half" => a.half(),
        "square" => a.square(),
        "cube" => a.cube(),
        _ => panic!("no such unary op {}", name),
    }
}

pub fn exec(op: &str, args: &[&str]) -> String {
    match op {
        "bin" => {
            let a = parse_dec(args[3]).expect("a");
            let b = parse_dec(args[4]).expect("b");
            show(&exec_bin(args[0], args[1], args[2], &a, &b, args[5]))
        }
        "un" => {
            let a = parse_dec(args[1]).expect("a");
            show(&exec_un(args[0], &a))
        }
        "sum" => {
            let xs: Vec<BigDecimal> = args[1..].iter().map(|s| parse_dec(s).expect("x")).collect();
            match args[0] {
                "owned" => show(&xs.into_iter().sum::<BigDecimal>()),
                "refs" => show(&xs.iter().sum::<BigDecimal>()),
                _ => panic!("sum kind"),
            }
        }
        _ => panic!("C01: unknown op {}", op),
    }
}

// ------------------------------------------------------------------ generation

/// scale gaps taken from the branch structure of the code
pub fn gen_gap(rng: &mut Rng, max_gap: u64) -> u64 {
    let r = rng.below(100);
    let g = if r < 45 { rng.below(46) }
        else if r < 60 { *rng.pick(&[19u64, 20, 21]) }
        else if r < 72 { *rng.pick(&[589u64, 590, 591, 592, 607, 608]) }
        else if r < 85 { 1u64 << rng.below(14) }
        else { rng.below(max_gap + 1) };
    g.min(max_gap)
}

/// special decimals: zeros carrying a scale, ones written with zeros, powers of ten
pub fn gen_special(rng: &mut Rng, scale: i64) -> BigDecimal {
    match rng.below(4) {
        0 => dec(BigInt::zero(), scale),
        1 => { // one written as 1.000 (scale >= 0), else a power of ten
            if scale >= 0 && scale <= 3000 { dec(pow10(scale as u64), scale) } else { dec(BigInt::from(1), scale) }
        }
        2 => { let k = rng.below(30); dec(pow10(k), scale) }
        _ => { let k = rng.below(30); dec(-pow10(k), scale) }
    }
}

pub fn gen_operand(rng: &mut Rng, max_len: usize, scale: i64) -> BigDecimal {
    if rng.chance(1, 8) { gen_special(rng, scale) } else { dec(gen_int(rng, max_len), scale) }
}

pub fn prim_range(pt: &str) -> (BigInt, BigInt) {
    match pt {
        "u8" => (0.into(), u8::MAX.into()), "u16" => (0.into(), u16::MAX.into()),
        "u32" => (0.into(), u32::MAX.into()), "u64" => (0.into(), u64::MAX.into()),
        "u128" => (0.into(), u128::MAX.into()),
        "i8" => (i8::MIN.into(), i8::MAX.into()), "i16" => (i16::MIN.into(), i16::MAX.into()),
        "i32" => (i32::MIN.into(), i32::MAX.into()), "i64" => (i64::MIN.into(), i64::MAX.into()),
        "i128" => (i128::MIN.into(), i128::MAX.into()),
        _ => panic!("ptype"),
    }
}

pub fn gen_prim(rng: &mut Rng, pt: &str) -> BigInt {
    let (lo, hi) = prim_range(pt);
    let r = rng.below(12);
    let v: BigInt = match r {
        0 => 0.into(), 1 => 1.into(), 2 => 2.into(), 3 => (-1).into(), 4 => (-2).into(),
        5 => lo.clone(), 6 => hi.clone(), 7 => &hi - 1, 8 => &lo + 1,
        _ => {
            let span: BigInt = &hi - &lo + 1;
            let x = gen_int(rng, 40);
            let m = ((x % &span) + &span) % &span;
            lo.clone() + m
        }
    };
    if v < lo || v > hi { 1.into() } else { v }
}

pub struct Params { pub max_len: usize, pub max_gap: u64, pub per_op: usize, pub big_frac: u64 }

pub fn params(tier: &str) -> Params {
    if tier == "thorough" {
        Params { max_len: 4000, max_gap: 10_000, per_op: 30000, big_frac: 10 }
    } else {
        Params { max_len: 1500, max_gap: 10_000, per_op: 2000, big_frac: 40 }
    }
}

/// emits input lines (without the `=>` part)
pub fn generate(rng: &mut Rng, tier: &str, shard: usize, nshards: usize, out: &mut dyn FnMut(String)) {
    let p = params(tier);
    let mut n = 0usize;
    for &(op, lf, rf) in OPS {
        for _ in 0..p.per_op {
            n += 1;
            // all shards draw the same stream; each keeps its own slice (deterministic in seed)
            let keep = n % nshards == shard;
            // limit the cost of very long operands with huge gaps
            let max_len = if rng.chance(1, p.big_frac) { p.max_len } else { 60 };
            let gap = gen_gap(rng, p.max_gap);
            let base = rng.range(-10_000, 10_000 - gap as i64);
            let (sa, sb) = if rng.chance(1, 2) { (base, base + gap as i64) } else { (base + gap as i64, base) };
            let lprim = lf == "P" || lf == "RP";
            let rprim = rf == "P" || rf == "RP";
            let lint = lprim || lf == "BI" || lf == "RBI";
            let rint = rprim || rf == "BI" || rf == "RBI";
            let pt = if lprim || rprim { *rng.pick(PRIMS) } else { "-" };
            let mut a = if lprim { dec(gen_prim(rng, pt), 0) }
                else if lint { if rng.chance(1, 6) { dec(BigInt::from(rng.range(-2, 2)), 0) } else { dec(gen_int(rng, max_len), 0) } }
                else { gen_operand(rng, max_len, sa) };
            let mut b = if rprim { dec(gen_prim(rng, pt), 0) }
                else if rint { if rng.chance(1, 6) { dec(BigInt::from(rng.range(-2, 2)), 0) } else { dec(gen_int(rng, max_len), 0) } }
                else { gen_operand(rng, max_len, sb) };
            // value-equal twins in different representations
            if !lint && !rint && rng.chance(1, 12) {
                let k = gap.min(200);
                let (i, s) = a.as_bigint_and_exponent();
                b = dec(i * pow10(k), s + k as i64);
                if rng.chance(1, 2) { std::mem::swap(&mut a, &mut b); }
            }
            // when an integer operand meets a decimal, use small |scale| for the decimal half the time
            if (lint ^ rint) && rng.chance(1, 2) {
                let s = rng.range(-30, 60);
                if lint { let (i, _) = b.as_bigint_and_exponent(); b = dec(i, s); }
                else { let (i, _) = a.as_bigint_and_exponent(); a = dec(i, s); }
            }
            if keep {
                out(format!("C01\tbin\t{}\t{}\t{}\t{}\t{}\t{}", op, lf, rf, show(&a), show(&b), pt));
            }
        }
    }
    let un = ["neg", "negref", "abs", "double", "half", "square", "cube", "abs_signed", "abs_ref", "neg_dref", "signum", "abs_sub0", "is_pos", "is_neg", "default_plus"];
    for name in un {
        for _ in 0..p.per_op {
            n += 1;
            let keep = n % nshards == shard;
            let max_len = if rng.chance(1, p.big_frac) { p.max_len } else { 60 };
            let s = rng.range(-10_000, 10_000);
            let a = gen_operand(rng, max_len, s);
            if keep { out(format!("C01\tun\t{}\t{}", name, show(&a))); }
        }
    }
    for kind in ["owned", "refs"] {
        for _ in 0..p.per_op {
            n += 1;
            let keep = n % nshards == shard;
            let cnt = rng.below(8) as usize;
            let mut line = format!("C01\tsum\t{}", kind);
            for _ in 0..cnt {
                let s = rng.range(-60, 60) * if rng.chance(1, 10) { 100 } else { 1 };
                let a = gen_operand(rng, 80, s);
                line.push('\t');
                line.push_str(&show(&a));
            }
            if keep { out(line); }
        }
    }
}
