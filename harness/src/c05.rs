//! C05: parsing — executor and generator
use crate::gen::*;
use crate::rng::Rng;
use bigdecimal::num_traits::Num;
use bigdecimal::BigDecimal;
use std::str::FromStr;

pub fn hex(bytes: &[u8]) -> String { bytes.iter().map(|b| format!("{:02x}", b)).collect() }
pub fn unhex(s: &str) -> Vec<u8> {
    (0..s.len() / 2).map(|i| u8::from_str_radix(&s[2 * i..2 * i + 2], 16).expect("hex")).collect()
}

fn render(r: Option<BigDecimal>) -> String {
    match r { Some(d) => format!("ok:{}", show(&d)), None => "err".to_string() }
}

pub fn exec(op: &str, args: &[&str]) -> String {
    let bytes = unhex(args[0]);
    let radix: u32 = args[1].parse().expect("radix");
    match op {
        "fromstr" => {
            let s = std::str::from_utf8(&bytes).expect("fromstr needs valid utf-8");
            render(BigDecimal::from_str(s).ok())
        }
        "radix" => {
            let s = std::str::from_utf8(&bytes).expect("radix needs valid utf-8");
            render(BigDecimal::from_str_radix(s, radix).ok())
        }
        "parsebytes" => render(BigDecimal::parse_bytes(&bytes, radix)),
        _ => panic!("C05: unknown op {}", op),
    }
}

const ALPHABET: &[u8] = b"017+-.eE_x ";

/// grammar-generated numeral (mostly valid), as bytes
fn gen_numeral(rng: &mut Rng, max_digits: usize) -> Vec<u8> {
    let mut s: Vec<u8> = Vec::new();
    match rng.below(4) { 0 => s.push(b'-'), 1 => s.push(b'+'), _ => {} }
    let li = if rng.chance(1, 6) { 0 } else { len_dist(rng, max_digits) };
    let push_digits = |s: &mut Vec<u8>, rng: &mut Rng, n: usize, allow_us: bool| {
        for i in 0..n {
            s.push(b'0' + rng.below(10) as u8);
            if allow_us && i + 1 < n && rng.chance(1, 9) { s.push(b'_'); }
        }
    };
    let us = rng.chance(1, 3);
    push_digits(&mut s, rng, li, us);
    if rng.chance(2, 3) {
        s.push(b'.');
        let lf = if li == 0 { 1 + len_dist(rng, max_digits) } else if rng.chance(1, 6) { 0 } else { len_dist(rng, max_digits) };
        push_digits(&mut s, rng, lf, us);
    } else if li == 0 { s.push(b'5'); }
    if rng.chance(1, 2) {
        s.push(if rng.chance(1, 2) { b'e' } else { b'E' });
        match rng.below(3) { 0 => s.push(b'-'), 1 => s.push(b'+'), _ => {} }
        let e: String = match rng.below(8) {
            0 => "9223372036854775807".into(), 1 => "9223372036854775808".into(), 2 => "9223372036854775809".into(),
            3 => "9223372036854775810".into(),
            4 => "170141183460469231731687303715884105727".into(), 5 => "170141183460469231731687303715884105728".into(),
            6 => { let l = 1 + rng.below(40) as usize; digit_string(rng, l) }
            _ => format!("{}", rng.below(400)),
        };
        s.extend_from_slice(e.as_bytes());
    }
    s
}

fn mutate(rng: &mut Rng, s: &mut Vec<u8>) {
    let n = 1 + rng.below(2);
    for _ in 0..n {
        let pos = rng.below(s.len() as u64 + 1) as usize;
        let ins: &[u8] = match rng.below(14) {
            0 => b"+", 1 => b"-", 2 => b".", 3 => b"_", 4 => b"e", 5 => b"E", 6 => b" ", 7 => b"\0",
            8 => "٣".as_bytes(), 9 => "５".as_bytes(), 10 => b"\xff", 11 => b"\xc3", 12 => b"x", _ => b"",
        };
        if ins.is_empty() { if !s.is_empty() { let p = pos.min(s.len() - 1); s.remove(p); } }
        else if rng.chance(1, 3) && pos < s.len() { s.splice(pos..pos + 1, ins.iter().copied()); }
        else { s.splice(pos..pos, ins.iter().copied()); }
    }
}

pub fn generate(rng: &mut Rng, tier: &str, shard: usize, nshards: usize, out: &mut dyn FnMut(String)) {
    let thorough = tier == "thorough";
    let mut n = 0usize;
    // 1. exhaustive: every string up to length L over the alphabet {0,1,7,+,-,.,e,E,_,x,space}
    let maxlen = if thorough { 7 } else { 6 };
    let k = ALPHABET.len();
    for len in 0..=maxlen {
        let total = (k as u64).pow(len as u32);
        for idx in 0..total {
            n += 1;
            if n % nshards != shard { continue; }
            let mut v = idx; let mut s = Vec::with_capacity(len);
            for _ in 0..len { s.push(ALPHABET[(v % k as u64) as usize]); v /= k as u64; }
            out(format!("C05\tfromstr\t{}\t10", hex(&s)));
        }
    }
    let mut emit = |line: String, n: &mut usize| { *n += 1; if *n % nshards == shard { out(line); } };
    // 2. grammar-generated numerals (thousands of digits, extreme exponents) and byte-level mutations
    let total = if thorough { 1_000_000 } else { 120_000 };
    for _ in 0..total {
        let max_digits = if rng.chance(1, 30) { 5000 } else { 40 };
        let mut s = gen_numeral(rng, max_digits);
        let r = rng.below(10);
        if r < 5 { mutate(rng, &mut s); }
        let valid = std::str::from_utf8(&s).is_ok();
        if valid && r != 9 { emit(format!("C05\tfromstr\t{}\t10", hex(&s)), &mut n); }
        else if valid { let radix = *rng.pick(&[2u32, 8, 9, 11, 16, 36, 10]); emit(format!("C05\tradix\t{}\t{}", hex(&s), radix), &mut n); }
        if !valid || rng.chance(1, 6) { let radix = if rng.chance(1, 8) { 16 } else { 10 }; emit(format!("C05\tparsebytes\t{}\t{}", hex(&s), radix), &mut n); }
    }
}
