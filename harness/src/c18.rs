//! C18: accessors, digits(), normalized, exact extension — executor and generator
use crate::gen::*;
use crate::rng::Rng;
use bigdecimal::num_bigint::{BigInt, BigUint, Sign};
use bigdecimal::{BigDecimal, BigDecimalRef};
use bigdecimal::verif_hooks as hooks;
use std::str::FromStr;

fn sign_name(s: Sign) -> &'static str {
    match s { Sign::Minus => "Minus", Sign::NoSign => "NoSign", Sign::Plus => "Plus" }
}

pub fn exec(op: &str, args: &[&str]) -> String {
    match op {
        "digits" => {
            let a = parse_dec(args[0]).expect("a");
            format!("{}", a.digits())
        }
        "digitsbits" => {
            let b: u64 = args[0].parse().unwrap();
            let n: BigUint = if args[1] == "lo" { BigUint::from(1u8) << (b - 1) as usize } else { (BigUint::from(1u8) << b as usize) - 1u8 };
            let d = hooks::count_decimal_digits_uint(&n);
            let r = hooks::get_rounding_term(&BigInt::from(n));
            format!("{} {}", d, r)
        }
        "tenpow" => {
            let k: u64 = args[0].parse().unwrap();
            format!("{}", hooks::ten_to_the_uint(k))
        }
        "ctor" => {
            let i = BigInt::from_str(args[0]).expect("i");
            let s: i64 = args[1].parse().expect("s");
            let d = BigDecimal::new(i.clone(), s);
            let mut f: Vec<String> = Vec::new();
            let (ei, es) = d.as_bigint_and_exponent();
            f.push(format!("{}@{}", ei, es));
            f.push(sign_name(d.sign()).to_string());
            f.push(format!("{}", d.fractional_digit_count()));
            let r = d.to_ref();
            f.push(sign_name(r.sign()).to_string());
            f.push(format!("{}", r.fractional_digit_count()));
            f.push(format!("{}", r.count_digits()));
            f.push(show(&r.to_owned()));
            let mut dest = BigDecimal::new(BigInt::from(77), 5);
            r.clone_into(&mut dest);
            f.push(show(&dest));
            f.push(show(&BigDecimal::from_bigint(i.clone(), s)));
            f.push(show(&BigDecimal::from_biguint(i.magnitude().clone(), s)));
            let (ii, is) = d.clone().into_bigint_and_exponent();
            f.push(format!("{}@{}", ii, is));
            { let (ci, cs) = d.as_bigint_and_scale(); f.push(format!("{}@{}", ci, cs)); }
            let (ji, js) = d.clone().into_bigint_and_scale();
            f.push(format!("{}@{}", ji, js));
            let from_pair: BigDecimal = (i.clone(), s).into();
            f.push(show(&from_pair));
            let rb: BigDecimalRef = (&i).into();
            f.push(show(&rb.to_owned()));
            f.push(format!("{}", d.digits()));
            // derived reference views (no digit cloning): abs, neg and their compositions must agree with the
            // owned operations on every accessor and compare equal to the owned result's view
            {
                use std::ops::Neg;
                let views: [(BigDecimalRef, BigDecimal); 4] = [
                    (r.abs(), d.abs()),
                    (r.neg(), d.clone().neg()),
                    (r.neg().abs(), d.abs()),
                    (r.abs().neg(), d.abs().neg()),
                ];
                for (v, o) in views.iter() {
                    f.push(format!("{},{},{},{},{},{}{}", sign_name(v.sign()), v.fractional_digit_count(), v.count_digits(),
                        v.is_zero() as u8, show(&v.to_owned()), (*v == o.to_ref()) as u8, (o.to_ref() == *v) as u8));
                }
            }
            f.join("|")
        }
        "normalized" => show(&parse_dec(args[0]).expect("a").normalized()),
        "wsext" => {
            let a = parse_dec(args[0]).expect("a");
            show(&a.with_scale(args[1].parse().unwrap()))
        }
        "rext" => {
            // the reference view: BigDecimalRef::to_owned_with_scale (extension is exact, reduction truncates)
            let a = parse_dec(args[0]).expect("a");
            show(&a.to_ref().to_owned_with_scale(args[1].parse().unwrap()))
        }
        "wpext" => {
            let a = parse_dec(args[0]).expect("a");
            show(&a.with_prec(args[1].parse().unwrap()))
        }
        _ => panic!("C18: unknown op {}", op),
    }
}

pub fn generate(rng: &mut Rng, tier: &str, shard: usize, nshards: usize, out: &mut dyn FnMut(String)) {
    let thorough = tier == "thorough";
    let mut n = 0usize;
    let mut emit = |line: String, n: &mut usize| { *n += 1; if *n % nshards == shard { out(line); } };
    // 0. (thorough, and the searches that run at thorough size) the first bit length at which the f64 digit
    //    estimate exceeds floor(log10 2^bits): 146_964_308 (defect F15: get_rounding_term(2^146964307) was 1)
    if thorough {
        emit("C18\tdigitsbits\t146964308\tlo".to_string(), &mut n);
        emit("C18\tdigitsbits\t146964308\thi".to_string(), &mut n);
    }
    // 1. every power of ten 10^k, 10^k - 1, 10^k + 1 for k in 0..=5000: digit counting and power construction
    let kmax = 5000u64;
    let kstep = if thorough { 1 } else { 1 };
    let mut k = 0u64;
    while k <= kmax {
        emit(format!("C18\ttenpow\t{}", k), &mut n);
        if thorough || k < 700 || k % 7 == 0 {
            let p = pow10(k);
            emit(format!("C18\tdigits\t{}@0", p), &mut n);
            emit(format!("C18\tdigits\t{}@3", &p + BigInt::from(1)), &mut n);
            if k > 0 { emit(format!("C18\tdigits\t{}@-2", -(&p - BigInt::from(1))), &mut n); }
        }
        k += kstep;
    }
    // 2. all unscaled values with up to 5 digits at scales -6..6 (accessors, normalized)
    let stride = if thorough { 1 } else { 23 };
    let off = rng.below(stride) as i64;
    for v in -99_999i64..=99_999 {
        if (v + 100_000) % stride as i64 != off { continue; }
        for s in -6..=6i64 {
            emit(format!("C18\tctor\t{}\t{}", v, s), &mut n);
            emit(format!("C18\tnormalized\t{}@{}", v, s), &mut n);
        }
    }
    // 3. f64 digit estimate, every bit length (scalar condition EstOK on the real code)
    let bmax = if thorough { 400_000u64 } else { 40_000 };
    for b in 1..=bmax {
        emit(format!("C18\tdigitsbits\t{}\tlo", b), &mut n);
        emit(format!("C18\tdigitsbits\t{}\thi", b), &mut n);
    }
    let nbig = if thorough { 4000 } else { 300 };
    let bbig = if thorough { 20_000_000u64 } else { 2_000_000 };
    for _ in 0..nbig {
        let b = bmax + 1 + rng.below(bbig - bmax);
        emit(format!("C18\tdigitsbits\t{}\tlo", b), &mut n);
        emit(format!("C18\tdigitsbits\t{}\thi", b), &mut n);
    }
    // 3b. every scale change of -45..45 digits (the u64 fast paths end at 19/20) and around the other
    //     power-of-ten algorithm switches, through the owned and the reference view
    for gap in (-45i64..=45).chain([255i64, 256, 257, 275, 276, 511, 512, 513, 589, 590, 591, 607, 608, 609].into_iter()) {
        for l in [1usize, 5, 19, 20, 21, 40] {
            let i = gen_int_len(rng, l);
            let s = rng.range(-30, 30);
            let a = dec(i, s);
            emit(format!("C18\trext\t{}\t{}", show(&a), s + gap), &mut n);
            emit(format!("C18\twsext\t{}\t{}", show(&a), s + gap.abs()), &mut n);
        }
    }
    // 4. random long decimals: digits, normalized with 0..5000 trailing zeros, exact extensions
    let nr = if thorough { 200_000 } else { 20_000 };
    for _ in 0..nr {
        let max_len = if rng.chance(1, 15) { 5000 } else { 80 };
        let i = gen_int(rng, max_len);
        let s = rng.range(-6000, 6000);
        let a = dec(i.clone(), s);
        match rng.below(6) {
            0 => emit(format!("C18\tdigits\t{}", show(&a)), &mut n),
            1 => {
                let tz = if rng.chance(1, 10) { rng.below(5001) } else { rng.below(40) };
                let b = dec(i * pow10(tz), s);
                emit(format!("C18\tnormalized\t{}", show(&b)), &mut n);
            }
            2 => {
                let ext = if rng.chance(1, 10) { rng.below(5001) as i64 } else { gen_ext(rng) };
                emit(format!("C18\twsext\t{}\t{}", show(&a), s + ext), &mut n);
            }
            3 => {
                let ext = if rng.chance(1, 10) { rng.below(5001) } else { gen_ext(rng) as u64 };
                emit(format!("C18\twpext\t{}\t{}", show(&a), a.digits() + ext), &mut n);
            }
            4 if rng.chance(1, 2) => {
                let ext = if rng.chance(1, 10) { rng.range(-5000, 5000) } else if rng.chance(1, 3) { -gen_ext(rng) } else { gen_ext(rng) };
                emit(format!("C18\trext\t{}\t{}", show(&a), s + ext), &mut n);
            }
            4 => {
                let z = dec(BigInt::from(0), s);
                emit(format!("C18\tnormalized\t{}", show(&z)), &mut n);
                emit(format!("C18\twsext\t{}\t{}", show(&z), s + gen_ext(rng)), &mut n);
            }
            _ => emit(format!("C18\tctor\t{}\t{}", a.as_bigint_and_exponent().0, rng.range(i64::MIN / 2, i64::MAX / 2)), &mut n),
        }
    }
}

fn gen_ext(rng: &mut Rng) -> i64 {
    match rng.below(4) {
        0 => rng.range(0, 45),
        1 => *rng.pick(&[19i64, 20, 21]),
        2 => *rng.pick(&[589i64, 590, 591, 608]),
        _ => rng.range(0, 700),
    }
}
