//! C02: equality and ordering — executor and generator
use crate::gen::*;
use crate::rng::Rng;
use bigdecimal::num_bigint::{BigInt, BigUint, Sign};
use bigdecimal::BigDecimal;
use std::cmp::Ordering;

fn oc(o: Ordering) -> &'static str { match o { Ordering::Less => "L", Ordering::Equal => "E", Ordering::Greater => "G" } }
fn b(x: bool) -> u8 { x as u8 }

pub fn exec(op: &str, args: &[&str]) -> String {
    match op {
        "cmp" => {
            let x = parse_dec(args[0]).expect("a");
            let y = parse_dec(args[1]).expect("b");
            let (rx, ry) = (x.to_ref(), y.to_ref());
            let mx = std::cmp::max(&x, &y);
            let mn = std::cmp::min(&x, &y);
            // derived reference views: negated views compare like the negated values, an abs view equals the owned abs
            let (nx, ny) = (-x.clone(), -y.clone());
            let (ax, ay) = (x.abs(), y.abs());
            format!("E={};NE={};LT={};LE={};GT={};GE={};CMP={};REFEQ={};REFCMP={};PCMP={};MAX={};MIN={};NEGEQ={};NEGCMP={};ABSSELF={}{}",
                b(x == y), b(x != y), b(x < y), b(x <= y), b(x > y), b(x >= y), oc(x.cmp(&y)),
                b(rx == ry), oc(rx.cmp(&ry)), oc(x.partial_cmp(&y).unwrap()),
                if std::ptr::eq(mx, &x) { "a" } else { "b" }, if std::ptr::eq(mn, &x) { "a" } else { "b" },
                b(-rx == ny.to_ref() && nx.to_ref() == -ry), oc((-rx).cmp(&-ry)),
                b(rx.abs() == ax.to_ref() && ax.to_ref() == rx.abs()), b(ry.abs() == ay.to_ref() && ay.to_ref() == ry.abs()))
        }
        "sort" => {
            let mut xs: Vec<BigDecimal> = args.iter().map(|s| parse_dec(s).expect("x")).collect();
            xs.sort();
            xs.iter().map(show).collect::<Vec<_>>().join(";")
        }
        "hbl" => {
            // the bit-length shortcut itself (hook): a = 2^N - 1, b = 2^j, scale difference k
            let nbits: usize = args[0].parse().unwrap();
            let j: usize = args[1].parse().unwrap();
            let k: u64 = args[2].parse().unwrap();
            let a = (BigUint::from(1u8) << nbits) - 1u8;
            let bb = BigUint::from(1u8) << j;
            format!("{}", b(bigdecimal::verif_hooks::highest_bit_lessthan_scaled(&a, &bb, k)))
        }
        _ => panic!("C02: unknown op {}", op),
    }
}

fn limbs_to_uint(limbs: &[u32]) -> BigUint { BigUint::new(limbs.to_vec()) }

pub fn generate(rng: &mut Rng, tier: &str, shard: usize, nshards: usize, out: &mut dyn FnMut(String)) {
    let thorough = tier == "thorough";
    let mut n = 0usize;
    let mut emit = |line: String, n: &mut usize| { *n += 1; if *n % nshards == shard { out(line); } };
    let pair = |x: &BigDecimal, y: &BigDecimal| format!("C02\tcmp\t{}\t{}", show(x), show(y));

    // 0. the bit-length shortcut at its boundary: a = 2^N - 1 against 2^j * 10^k with N = floor(k log2 10) + j + delta.
    //    First the scale differences where the f64 product LOG2_10 * k rounds up to an integer above k log2 10
    //    (defect F16: 178_898_934 and its multiples), then every k up to 400 and random k up to 10^7.
    for (nb, j, k) in [(594_289_395u64, 0u64, 178_898_934u64), (594_289_396, 1, 178_898_934), (594_289_394, 0, 178_898_934),
                       (1_578_339_557, 0, 475_127_550), (1_578_339_556, 0, 475_127_550)] {
        if k > 200_000_000 && !thorough { continue; }
        emit(format!("C02\thbl\t{}\t{}\t{}", nb, j, k), &mut n);
    }
    let nk = if thorough { 6_000 } else { 1_500 };
    for i in 0..nk {
        let kmax = if rng.chance(1, 12) { 10_000_000 } else { 20_000 };
        let k = if i < 400 { i as u64 + 1 } else { 1 + rng.below(kmax) };
        let fl = ((k as f64) * 3.321928094887362) as u64;
        for j in [0u64, 1, 37] {
            for d in [-2i64, -1, 0, 1, 2] {
                let nb = (fl + j) as i64 + d;
                if nb >= 1 { emit(format!("C02\thbl\t{}\t{}\t{}", nb, j, k), &mut n); }
            }
        }
    }
    // 1. limbs at the multiplication / carry overflow boundaries floor(2^64/10^k) ± 1, every k < 20, every limb position
    let reps = if thorough { 40 } else { 6 };
    for k in 1..20u32 {
        let pow = 10u64.pow(k);
        let q = (u64::MAX / pow) as u128;              // floor((2^64-1)/10^k)
        let cands: Vec<u64> = [q.saturating_sub(1), q, q + 1, (1u128 << 32) - 1, ((1u128 << 64) / pow as u128) as u128]
            .iter().map(|v| (*v).min(u32::MAX as u128) as u64).collect();
        for nlimbs in 1..=4usize {
            for pos in 0..nlimbs {
                for c in &cands {
                    for _ in 0..reps {
                        let mut limbs: Vec<u32> = (0..nlimbs).map(|_| rng.next() as u32).collect();
                        limbs[pos] = *c as u32;
                        if rng.chance(1, 3) { for l in limbs.iter_mut() { if rng.chance(1, 2) { *l = *c as u32; } } }
                        if *limbs.last().unwrap() == 0 { *limbs.last_mut().unwrap() = 1; }
                        let xb = limbs_to_uint(&limbs);
                        let s = rng.range(-30, 30);
                        let sign = if rng.chance(1, 2) { Sign::Plus } else { Sign::Minus };
                        let x = dec(BigInt::from_biguint(sign, xb.clone()), s);
                        // y = x * 10^k written at scale s + k : equal value
                        let y = dec(BigInt::from_biguint(sign, xb * BigUint::from(pow)), s + k as i64);
                        emit(pair(&x, &y), &mut n);
                        emit(pair(&y, &x), &mut n);
                        // a neighbour one unit in the last place away
                        let (yi, ys) = y.as_bigint_and_exponent();
                        let y2 = dec(yi + BigInt::from(if rng.chance(1, 2) { 1 } else { -1 }), ys);
                        emit(pair(&x, &y2), &mut n);
                    }
                }
            }
        }
    }
    // 1b. word-level near-misses of the limb loop: for x = b*10^k (scale gap k in 1..19)
    //     (i)  y = x +- 2^(32 j) for every word position j (one unit of carry into word j),
    //     (ii) y = x mod 2^(32 n) with n = words(b): all low words agree and only the final carry out
    //          of the top word tells the numbers apart; b is sized so that the bit-length prefilter
    //          cannot (bits(y) = 32 n = bits(b) + floor(k log2 10))
    let reps2 = if thorough { 60 } else { 8 };
    for k in 1..20u32 {
        let pow = BigUint::from(10u64.pow(k));
        let kbits = ((k as f64) * 3.321928094887362).floor() as u64;
        for nwords in 1..=5u64 {
            for _ in 0..reps2 {
                // (ii) truncation class
                let want_bits = (32 * nwords).saturating_sub(kbits);
                for bb in [want_bits, want_bits + 1] {
                    if bb <= 32 * (nwords - 1) || bb > 32 * nwords { continue; }
                    let mut b = BigUint::from(1u8) << (bb as usize - 1);
                    b = &b + (BigUint::from(rng.next()) * BigUint::from(rng.next()) * BigUint::from(rng.next())) % &b;
                    let p = &b * &pow;
                    let modulus = BigUint::from(1u8) << (32 * nwords as usize);
                    if p < modulus { continue; }
                    let a = &p % &modulus;
                    if a.bits() != 32 * nwords { continue; }
                    let s = rng.range(-30, 30);
                    let sign = if rng.chance(1, 2) { Sign::Plus } else { Sign::Minus };
                    let x = dec(BigInt::from_biguint(sign, b.clone()), s);
                    let y = dec(BigInt::from_biguint(sign, a), s + k as i64);
                    emit(pair(&x, &y), &mut n);
                    emit(pair(&y, &x), &mut n);
                }
                // (i) one unit in word j
                let mut limbs: Vec<u32> = (0..nwords).map(|_| rng.next() as u32).collect();
                if *limbs.last().unwrap() == 0 { *limbs.last_mut().unwrap() = 1; }
                let b = limbs_to_uint(&limbs);
                let p = &b * &pow;
                let words_p = (p.bits() + 31) / 32;
                let j = rng.below(words_p + 1) as usize;
                let unit = BigUint::from(1u8) << (32 * j);
                let y_mag = if rng.chance(1, 2) || p <= unit { &p + &unit } else { &p - &unit };
                let s = rng.range(-30, 30);
                let sign = if rng.chance(1, 2) { Sign::Plus } else { Sign::Minus };
                let x = dec(BigInt::from_biguint(sign, b), s);
                let y = dec(BigInt::from_biguint(sign, y_mag), s + k as i64);
                emit(pair(&x, &y), &mut n);
                emit(pair(&y, &x), &mut n);
            }
        }
    }
    // 2. structured random pairs
    let total = if thorough { 1_500_000 } else { 100_000 };
    for _ in 0..total {
        let max_len = if rng.chance(1, 15) { 1500 } else { 45 };
        let s = rng.range(-2000, 2000);
        let x = crate::c01::gen_operand(rng, max_len, s);
        let (xi, xs) = x.as_bigint_and_exponent();
        let kind = rng.below(12);
        let y = match kind {
            0 | 1 => { let k = 1 + rng.below(19); dec(&xi * pow10(k), xs + k as i64) }          // equal, gap 1..19
            2 | 3 => { let k = 20 + crate::c01::gen_gap(rng, 3000); dec(&xi * pow10(k), xs + k as i64) }   // equal, gap >= 20
            4 => { let k = rng.below(40); dec(&xi * pow10(k) + BigInt::from(1), xs + k as i64) } // ULP neighbour above
            5 => { let k = rng.below(40); dec(&xi * pow10(k) - BigInt::from(1), xs + k as i64) } // ULP neighbour below
            6 => dec(-xi.clone(), xs + rng.range(0, 30)),
            7 => dec(BigInt::from(0), rng.range(-3000, 3000)),
            8 => { // straddling the u64 / u128 fast-path limits
                let base: BigInt = if rng.chance(1, 2) { BigInt::from(1u8) << 64 } else { BigInt::from(1u8) << 128 };
                let k = rng.below(25);
                let near = (&base / pow10(k)) + BigInt::from(rng.range(-2, 2));
                dec(near, rng.range(-5, 5))
            }
            9 => { // same digit count, differing in one far digit
                let l = xi.to_string().trim_start_matches('-').len();
                let p = rng.below(l as u64);
                dec(&xi + pow10(p), xs)
            }
            _ => { let s2 = s + crate::c01::gen_gap(rng, 4000) as i64 * if rng.chance(1, 2) { 1 } else { -1 }; crate::c01::gen_operand(rng, max_len, s2) }
        };
        if kind == 8 {
            let base: BigInt = if rng.chance(1, 2) { BigInt::from(1u8) << 64 } else { BigInt::from(1u8) << 128 };
            let x2 = dec(base + BigInt::from(rng.range(-2, 2)), rng.range(-5, 5));
            emit(pair(&x2, &y), &mut n);
            emit(pair(&y, &x2), &mut n);
        } else if rng.chance(1, 2) { emit(pair(&x, &y), &mut n); } else { emit(pair(&y, &x), &mut n); }
    }
    // 3. scales whose difference exceeds 2^63
    let big = if thorough { 20_000 } else { 2_000 };
    for _ in 0..big {
        let s1 = i64::MAX - rng.range(0, 1000);
        let s2 = i64::MIN + rng.range(0, 1000);
        let x = dec(gen_int(rng, 30), if rng.chance(1, 2) { s1 } else { rng.range(-10, 10) });
        let y = dec(gen_int(rng, 30), if rng.chance(1, 2) { s2 } else { rng.range(-10, 10) });
        if rng.chance(1, 2) { emit(pair(&x, &y), &mut n); } else { emit(pair(&y, &x), &mut n); }
    }
    // 4. sorting (total order in practice)
    let sorts = if thorough { 40_000 } else { 3_000 };
    for _ in 0..sorts {
        let cnt = 2 + rng.below(9) as usize;
        let mut line = String::from("C02\tsort");
        let bs = rng_scale(rng);
        let base = crate::c01::gen_operand(rng, 20, bs);
        for _ in 0..cnt {
            let d = if rng.chance(1, 3) {
                let (i, s) = base.as_bigint_and_exponent();
                let k = rng.below(25);
                dec(i * pow10(k) + BigInt::from(rng.range(-1, 1)), s + k as i64)
            } else { let sc = rng_scale(rng); crate::c01::gen_operand(rng, 20, sc) };
            line.push('\t');
            line.push_str(&show(&d));
        }
        emit(line, &mut n);
    }
}

fn rng_scale(rng: &mut Rng) -> i64 { rng.range(-30, 30) }
