//! C08: division — executor and generator
use crate::c01::{bi, gen_prim, with_prim, PRIMS};
use crate::gen::*;
use crate::rng::Rng;
use bigdecimal::num_bigint::BigInt;
use bigdecimal::verif_hooks as hooks;
use bigdecimal::num_traits::ToPrimitive;
use bigdecimal::BigDecimal;
use std::convert::TryFrom;
use std::str::FromStr;

fn float_arg(ft: &str, bits: &str) -> (Option<f32>, Option<f64>) {
    let b = u64::from_str_radix(bits, 16).expect("bits");
    if ft == "f32" { (Some(f32::from_bits(b as u32)), None) } else { (None, Some(f64::from_bits(b))) }
}

/// exact decimal of a normal float, "nonnormal" otherwise
pub fn float_dec(ft: &str, bits: u64) -> String {
    if ft == "f32" {
        let f = f32::from_bits(bits as u32);
        if f.is_normal() { show(&BigDecimal::try_from(f).unwrap()) } else { "nonnormal".to_string() }
    } else {
        let f = f64::from_bits(bits);
        if f.is_normal() { show(&BigDecimal::try_from(f).unwrap()) } else { "nonnormal".to_string() }
    }
}

pub fn exec(op: &str, args: &[&str]) -> String {
    match op {
        "div" => {
            let a = parse_dec(args[2]).expect("a");
            let b = parse_dec(args[3]).expect("b");
            show(&match args[0] {
                "DD" => a.clone() / b.clone(), "DRD" => a.clone() / &b, "RDD" => &a / b.clone(), "RDRD" => &a / &b,
                _ => panic!("no such div form"),
            })
        }
        "divprim" => {
            let a = parse_dec(args[2]).expect("a");
            let v = BigInt::from_str(args[3]).expect("p");
            let pt = args[4];
            show(&match args[0] {
                "val" => with_prim!(pt, v, |p| a.clone() / p),
                "ref" => with_prim!(pt, v, |p| &a / p),
                "valrp" => with_prim!(pt, v, |p| a.clone() / &p),
                "assign" => with_prim!(pt, v, |p| { let mut x = a.clone(); x /= p; x }),
                "assignref" => with_prim!(pt, v, |p| { let mut x = a.clone(); x /= &p; x }),
                _ => panic!("no such divprim form"),
            })
        }
        "primdiv" => {
            let v = BigInt::from_str(args[2]).expect("p");
            let b = parse_dec(args[3]).expect("b");
            let pt = args[4];
            show(&match args[0] {
                "PD" => with_prim!(pt, v, |p| p / b.clone()),
                "PRD" => with_prim!(pt, v, |p| p / &b),
                "RPD" => with_prim!(pt, v, |p| &p / b.clone()),
                "RPRD" => with_prim!(pt, v, |p| &p / &b),
                _ => panic!("no such primdiv form"),
            })
        }
        "divfloat" => {
            let a = parse_dec(args[2]).expect("a");
            // args[3] is the decimal rendering for the driver; the float itself comes as ft:bits in args[4]
            let (ft, bits) = args[4].split_once(':').expect("ft:bits");
            let (f32v, f64v) = float_arg(ft, bits);
            macro_rules! go { ($f:expr) => { match args[0] {
                "val" => a.clone() / $f, "ref" => &a / $f, "valrf" => a.clone() / &$f,
                "assign" => { let mut x = a.clone(); x /= $f; x }
                "assignref" => { let mut x = a.clone(); x /= &$f; x }
                _ => panic!("no such divfloat form"),
            } } }
            show(&if let Some(f) = f32v { go!(f) } else { let f = f64v.unwrap(); go!(f) })
        }
        "floatdiv" => {
            let b = parse_dec(args[3]).expect("b");
            let (ft, bits) = args[4].split_once(':').expect("ft:bits");
            let (f32v, f64v) = float_arg(ft, bits);
            macro_rules! go { ($f:expr) => { match args[0] {
                "fD" => $f / b.clone(), "fRD" => $f / &b, "RfD" => &$f / b.clone(), "RfRD" => &$f / &b,
                _ => panic!("no such floatdiv form"),
            } } }
            show(&if let Some(f) = f32v { go!(f) } else { let f = f64v.unwrap(); go!(f) })
        }
        "impldiv" => {
            let n = BigInt::from_str(args[0]).unwrap();
            let d = BigInt::from_str(args[1]).unwrap();
            show(&hooks::impl_division(n, &d, args[2].parse().unwrap(), args[3].parse().unwrap()))
        }
        _ => panic!("C08: unknown op {}", op),
    }
}

/// numerator / denominator pairs built from the branch structure of impl_division
fn gen_pair(rng: &mut Rng, max_len: usize, prec: u64) -> (BigDecimal, BigDecimal) {
    let sb = rng.range(-60, 60);
    let sa = rng.range(-60, 60);
    match rng.below(10) {
        0 | 1 => { // terminating quotients: divisor 2^i 5^j
            let i = rng.below(61) as u32; let j = rng.below(31) as u32;
            let b = BigInt::from(2).pow(i) * BigInt::from(5).pow(j);
            (dec(gen_int(rng, max_len), sa), dec(if rng.chance(1, 2) { b } else { -b }, sb))
        }
        2 | 3 | 4 => { // quotient with a chosen digit pattern around the P-th digit: a = b*q + r
            let lb = 1 + rng.below(40) as usize;
            let b = gen_int_len(rng, lb);
            let lq = (prec as i64 + rng.range(-3, 3)).max(1) as usize;
            let q = gen_int_len(rng, lq);
            let babs = b.magnitude().clone();
            let r: BigInt = match rng.below(5) {
                0 => BigInt::from(0),
                1 => BigInt::from(1),
                2 => BigInt::from(babs.clone()) - 1,
                3 => BigInt::from(babs.clone() / 2u8),
                _ => BigInt::from(babs.clone() / 2u8) + 1,
            };
            let a = &b * &q + if q < BigInt::from(0) { -r } else { r } * if b < BigInt::from(0) { BigInt::from(-1) } else { BigInt::from(1) };
            (dec(a, sa), dec(b, sb))
        }
        5 => { // |a| much smaller than |b|
            let la = 1 + rng.below(5) as usize; let lb = 50 + rng.below(400) as usize;
            (dec(gen_int_len(rng, la), sa), dec(gen_int_len(rng, lb), sb))
        }
        6 => { // |a| much larger than |b|
            let la = 120 + rng.below(600) as usize; let lb = 1 + rng.below(5) as usize;
            (dec(gen_int_len(rng, la), sa), dec(gen_int_len(rng, lb), sb))
        }
        7 => { // equal unscaled integers with different scales; unit divisors 1.000
            let i = gen_int(rng, 30);
            if rng.chance(1, 2) { (dec(i.clone(), sa), dec(i, sb)) }
            else { let k = rng.below(20); (dec(i, sa), dec(pow10(k), k as i64)) }
        }
        8 => (dec(BigInt::from(0), sa), dec(gen_int(rng, 20), sb)),
        _ => (dec(gen_int(rng, max_len), sa), dec(gen_int(rng, max_len), sb)),
    }
}

fn gen_float_bits(rng: &mut Rng, ft: &str) -> u64 {
    let r = rng.below(12);
    if ft == "f32" {
        (match r {
            0 => 1.0f32.to_bits(), 1 => (-1.0f32).to_bits(), 2 => 2.0f32.to_bits(), 3 => (-2.0f32).to_bits(),
            4 => 0.0f32.to_bits(), 5 => f32::INFINITY.to_bits(), 6 => f32::NAN.to_bits(), 7 => 1u32, // subnormal
            8 => 0.5f32.to_bits(), 9 => 3.0f32.to_bits(),
            _ => { let e = 90 + rng.below(80) as u32; ((rng.below(2) as u32) << 31) | (e << 23) | (rng.next() as u32 & 0x7f_ffff) }
        }) as u64
    } else {
        match r {
            0 => 1.0f64.to_bits(), 1 => (-1.0f64).to_bits(), 2 => 2.0f64.to_bits(), 3 => (-2.0f64).to_bits(),
            4 => (-0.0f64).to_bits(), 5 => f64::NEG_INFINITY.to_bits(), 6 => f64::NAN.to_bits(), 7 => 12345u64, // subnormal
            8 => 0.1f64.to_bits(), 9 => 1e10f64.to_bits(),
            _ => { let e = 960 + rng.below(130); (rng.below(2) << 63) | (e << 52) | (rng.next() & 0xf_ffff_ffff_ffff) }
        }
    }
}

pub fn generate(rng: &mut Rng, tier: &str, shard: usize, nshards: usize, out: &mut dyn FnMut(String)) {
    let thorough = tier == "thorough";
    let prec = hooks::default_precision();
    let mut n = 0usize;
    let mut emit = |line: String, n: &mut usize| { *n += 1; if *n % nshards == shard { out(line); } };
    // 1. decimal / decimal, four ownership forms
    let total = if thorough { 400_000 } else { 30_000 };
    for _ in 0..total {
        let max_len = if rng.chance(1, 25) { 2000 } else { 60 };
        let (a, b) = gen_pair(rng, max_len, prec);
        let f = *rng.pick(&["DD", "DRD", "RDD", "RDRD"]);
        emit(format!("C08\tdiv\t{}\t{}\t{}\t{}", f, prec, show(&a), show(&b)), &mut n);
    }
    // 2. zero divisors for every overload (decimal zero with any scale; integer zero of every width)
    let zreps = if thorough { 30 } else { 3 };
    for _ in 0..zreps {
        let sa0 = rng.range(-20, 20);
        let a = crate::c01::gen_operand(rng, 30, sa0);
        for f in ["DD", "DRD", "RDD", "RDRD"] {
            emit(format!("C08\tdiv\t{}\t{}\t{}\t0@{}", f, prec, show(&a), rng.range(-30, 30)), &mut n);
        }
        for pt in PRIMS {
            for f in ["val", "ref", "valrp", "assign", "assignref"] {
                emit(format!("C08\tdivprim\t{}\t{}\t{}\t0\t{}", f, prec, show(&a), pt), &mut n);
            }
            for f in ["PD", "PRD", "RPD", "RPRD"] {
                let v = match rng.below(3) { 0 => BigInt::from(1), 1 => BigInt::from(2), _ => gen_prim(rng, pt) };
                emit(format!("C08\tprimdiv\t{}\t{}\t{}\t0@{}\t{}", f, prec, v, rng.range(-10, 10), pt), &mut n);
            }
        }
        for ft in ["f32", "f64"] {
            for f in ["fD", "fRD", "RfD", "RfRD"] {
                let bits = match rng.below(3) {
                    0 => if ft == "f32" { 1.0f32.to_bits() as u64 } else { 1.0f64.to_bits() },
                    1 => if ft == "f32" { 3.5f32.to_bits() as u64 } else { 3.5f64.to_bits() },
                    _ => gen_float_bits(rng, ft),
                };
                emit(format!("C08\tfloatdiv\t{}\t{}\t{}\t0@{}\t{}:{:x}", f, prec, float_dec(ft, bits), rng.range(-10, 10), ft, bits), &mut n);
            }
        }
    }
    // 3. primitive and float forms on non-zero operands
    let total = if thorough { 300_000 } else { 24_000 };
    for _ in 0..total {
        let max_len = if rng.chance(1, 25) { 600 } else { 40 };
        let (a, _) = gen_pair(rng, max_len, prec);
        match rng.below(4) {
            0 => {
                let pt = *rng.pick(PRIMS);
                let v = gen_prim(rng, pt);
                let f = *rng.pick(&["val", "ref", "valrp", "assign", "assignref"]);
                emit(format!("C08\tdivprim\t{}\t{}\t{}\t{}\t{}", f, prec, show(&a), v, pt), &mut n);
            }
            1 => {
                let pt = *rng.pick(PRIMS);
                let mut v = gen_prim(rng, pt);
                if v == BigInt::from(1) { v = BigInt::from(3); }    // numerator one is inverse(): C12
                if a.as_bigint_and_exponent().0 == BigInt::from(0) { continue; }
                let f = *rng.pick(&["PD", "PRD", "RPD", "RPRD"]);
                emit(format!("C08\tprimdiv\t{}\t{}\t{}\t{}\t{}", f, prec, v, show(&a), pt), &mut n);
            }
            2 => {
                let ft = *rng.pick(&["f32", "f64"]);
                let bits = gen_float_bits(rng, ft);
                let f = *rng.pick(&["val", "ref", "valrf", "assign", "assignref"]);
                emit(format!("C08\tdivfloat\t{}\t{}\t{}\t{}\t{}:{:x}", f, prec, show(&a), float_dec(ft, bits), ft, bits), &mut n);
            }
            _ => {
                let ft = *rng.pick(&["f32", "f64"]);
                let mut bits = gen_float_bits(rng, ft);
                let one = if ft == "f32" { 1.0f32.to_bits() as u64 } else { 1.0f64.to_bits() };
                if bits == one { bits = if ft == "f32" { 7.25f32.to_bits() as u64 } else { 7.25f64.to_bits() }; }
                if a.as_bigint_and_exponent().0 == BigInt::from(0) { continue; }
                let f = *rng.pick(&["fD", "fRD", "RfD", "RfRD"]);
                emit(format!("C08\tfloatdiv\t{}\t{}\t{}\t{}\t{}:{:x}", f, prec, float_dec(ft, bits), show(&a), ft, bits), &mut n);
            }
        }
    }
    // 4. impl_division through the hook at precisions 1..150
    let total = if thorough { 300_000 } else { 24_000 };
    for _ in 0..total {
        let p = if rng.chance(1, 3) { 1 + rng.below(5) } else { 1 + rng.below(150) };
        let (a, b) = gen_pair(rng, 50, p);
        let (ai, _) = a.as_bigint_and_exponent();
        let (bi_, _) = b.as_bigint_and_exponent();
        if bi_ == BigInt::from(0) { continue; }
        emit(format!("C08\timpldiv\t{}\t{}\t{}\t{}", ai, bi_, rng.range(-50, 50), p), &mut n);
    }
    let _ = bi;
}
