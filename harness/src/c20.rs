//! C20: compile-time configuration — this binary is rebuilt under different RUST_BIGDECIMAL_*
//! environments; every case re-uses the executors of the other properties, parameterised by the
//! configuration this build really has (read back through the hooks).
use crate::c06::{mode_name, MODES};
use crate::gen::*;
use crate::rng::Rng;
use bigdecimal::num_bigint::BigInt;
use bigdecimal::verif_hooks as hooks;
use bigdecimal::{BigDecimal, Context, RoundingMode};

pub struct Cfg { pub prec: u64, pub mode: &'static str, pub low: usize, pub high: usize, pub pad: usize }

pub fn current() -> Cfg {
    let (low, high, pad) = hooks::fmt_config();
    Cfg { prec: hooks::default_precision(), mode: mode_name(RoundingMode::default()), low, high, pad }
}

pub fn cfg_string() -> String {
    let c = current();
    format!("{},{},{},{},{}", c.prec, c.mode, c.low, c.high, c.pad)
}

pub fn exec(op: &str, args: &[&str]) -> String {
    // op = sub-property, args[0] = its op, args[1..] = its arguments
    match op {
        "C04" => crate::c04::exec(args[0], &args[1..]),
        "C06" => crate::c06::exec(args[0], &args[1..]),
        "C08" => crate::c08::exec(args[0], &args[1..]),
        "C10" => crate::c10::exec(args[0], &args[1..]),
        "C11" => crate::c11::exec(args[0], &args[1..]),
        "C13" => crate::c13::exec(args[0], &args[1..]),
        "C16" => crate::c16::exec(args[0], &args[1..]),
        "ctx" => {
            // Context::default() and the default-context forms against their explicit twins
            let c = Context::default();
            match args[0] {
                "default" => format!("{},{}", c.precision().get(), mode_name(c.rounding_mode())),
                "inverse" => {
                    let a = parse_dec(args[1]).expect("a");
                    format!("{}|{}", show(&a.inverse()), show(&a.inverse_with_context(&c)))
                }
                "sqrt" => {
                    let a = parse_dec(args[1]).expect("a");
                    format!("{}|{}", crate::c10::show_opt(a.sqrt()), crate::c10::show_opt(a.sqrt_with_context(&c)))
                }
                "cbrt" => {
                    let a = parse_dec(args[1]).expect("a");
                    format!("{}|{}", show(&a.cbrt()), show(&a.cbrt_with_context(&c)))
                }
                _ => panic!("no such ctx op"),
            }
        }
        _ => panic!("C20: unknown sub-property {}", op),
    }
}

pub fn generate(rng: &mut Rng, tier: &str, shard: usize, nshards: usize, out: &mut dyn FnMut(String)) {
    let thorough = tier == "thorough";
    let c = current();
    let cs = cfg_string();
    let mut n = 0usize;
    let mut emit = |line: String, n: &mut usize| { *n += 1; if *n % nshards == shard { out(format!("C20\t{}", line)); } };
    emit(format!("ctx\tdefault\t{}", cs), &mut n);
    // small-scope exhaustive division: all numerators and denominators below 1000 (precisions 1..3 in particular)
    let lim = if thorough || c.prec <= 3 { 1000 } else { 120 };
    for a in 1..lim { for b in 1..lim {
        emit(format!("C08\tdiv\tRDRD\t{}\t{}@0\t{}@0", c.prec, a, b), &mut n);
    } }
    // boundary cases of the configured limits: appended characters (integer zeros + point + fraction
    // zeros) one below, at, and one above the padding limit; trailing zeros at the upper threshold
    for tot in [c.pad as i64 - 1, c.pad as i64, c.pad as i64 + 1] {
        for p in [0i64, 1, 4] {
            let frac = if p > 0 { p + 1 } else { 0 };
            let z = tot - frac;
            if z < 0 { continue; }
            for iv in [1i64, -37, 905] {
                let d = dec(BigInt::from(iv), -z);
                for kind in ["display", "e"] {
                    emit(format!("C16\tfmt\t{}\t \t-\t0\t0\t-\t{}\t{}\t{}", kind, p, show(&d), cs), &mut n);
                }
            }
        }
    }
    for z in [c.high as i64 - 1, c.high as i64, c.high as i64 + 1, c.pad as i64 - 1, c.pad as i64, c.pad as i64 + 1] {
        if z < 0 { continue; }
        for iv in [1i64, -37, 905] {
            let d = dec(BigInt::from(iv), -z);
            for kind in ["display", "tostring", "display_ref"] { emit(format!("C04\trender\t{}\t{}\t{}", kind, show(&d), cs), &mut n); }
        }
    }
    for lz in [c.low as i64 - 1, c.low as i64, c.low as i64 + 1] {
        if lz < 0 { continue; }
        for iv in [1i64, -37, 905] {
            let l = iv.abs().to_string().len() as i64;
            let d = dec(BigInt::from(iv), l + lz);      // 0.<lz zeros>ddd
            for kind in ["display", "tostring", "display_ref"] { emit(format!("C04\trender\t{}\t{}\t{}", kind, show(&d), cs), &mut n); }
        }
    }
    // zeros and tiny values under the configured mode: {:.N} / {:.Ne} of 0 written with any scale must print zeros
    // (under Up / Ceiling a wrong 'first dropped digit' would print 0.01), and of values far below one unit of the
    // last printed place must follow the configured mode
    for sc in [0i64, 1, 2, 3, 5, 8, 13, 21] {
        for p in [0i64, 1, 2, 4, 7] {
            for iv in [0i64, 1, -1, 5, -5, 49, 50, 51, -50] {
                let d = dec(BigInt::from(iv), sc);
                for kind in ["display", "e"] {
                    emit(format!("C16\tfmt\t{}\t \t-\t0\t0\t-\t{}\t{}\t{}", kind, p, show(&d), cs), &mut n);
                }
            }
        }
    }
    let total = if thorough { 40_000 } else { 4_000 };
    for _ in 0..total {
        let sa = rng_scale(rng);
        let a = crate::c01::gen_operand(rng, 40, sa);
        match rng.below(9) {
            0 => { let sy = rng_scale(rng); let (x, y) = (a.clone(), crate::c01::gen_operand(rng, 30, sy));
                   if y.as_bigint_and_exponent().0 != BigInt::from(0) { emit(format!("C08\tdiv\tDD\t{}\t{}\t{}", c.prec, show(&x), show(&y)), &mut n); } }
            1 => { let x = crate::c10::gen_radicand(rng, c.prec.min(60)); emit(format!("C10\tsqrt\tdefault\t{}\t{}\t{}", show(&x), c.prec, c.mode), &mut n);
                   emit(format!("ctx\tsqrt\t{}", show(&x)), &mut n); }
            2 => { let x = crate::c11::gen_cube_arg(rng, c.prec.min(60)); emit(format!("C11\tcbrt\tdefault\t{}\t{}\t{}", show(&x), c.prec, c.mode), &mut n);
                   emit(format!("ctx\tcbrt\t{}", show(&x)), &mut n); }
            3 => { if a.as_bigint_and_exponent().0 != BigInt::from(0) { emit(format!("ctx\tinverse\t{}", show(&a)), &mut n); } }
            4 => { let k = rng.range(-3, 12); emit(format!("C06\tround\t{}\t{}\t{}", show(&a), a.fractional_digit_count() - k, c.mode), &mut n); }
            5 | 6 => { // Display around both thresholds, with this configuration
                let l = 1 + rng.below(12) as usize;
                let i = gen_int_len(rng, l);
                let s = match rng.below(3) { 0 => -(rng.range(0, c.high as i64 + 30)), 1 => l as i64 + rng.range(0, c.low as i64 + 6), _ => rng.range(-5, 20) };
                let d = dec(i, s);
                let kind = *rng.pick(&["display", "tostring", "display_ref"]);
                emit(format!("C04\trender\t{}\t{}\t{}", kind, show(&d), cs), &mut n); }
            7 => { // precision formatting with the configured mode and padding limit
                let l = 1 + rng.below(20) as usize;
                let s = match rng.below(3) { 0 => -(rng.range(0, c.pad as i64 + 6)), _ => rng.range(0, 15) };
                let p = match rng.below(3) { 0 => rng.below(c.pad as u64 + 5) as i64, _ => rng.range(0, 12) };
                let k = (s - p).max(0) as usize;
                let int = crate::c06::gen_cut_number(rng, l, k.min(l + 2));
                let d = dec(int, s);
                let kind = *rng.pick(&["display", "e", "E"]);
                emit(format!("C16\tfmt\t{}\t \t-\t0\t0\t-\t{}\t{}\t{}", kind, p, show(&d), cs), &mut n); }
            _ => { // exp delivers the configured number of digits (small arguments keep the cost down)
                if rng.chance(1, 4) { let x = dec(BigInt::from(rng.range(-300, 300)), 1); emit(format!("C13\texp\t{}\t{}", show(&x), c.prec), &mut n); } }
        }
    }
    let _ = MODES;
}

fn rng_scale(rng: &mut Rng) -> i64 { rng.range(-20, 30) }
