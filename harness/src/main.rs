//! Correspondence harness: generates structured cases, runs the *real* bigdecimal code
//! in-process and prints one line per case:
//!     <prop> \t <op> \t <arg>… \t => \t <implementation output>
//! Sub-commands:
//!     run  <prop> <tier> <seed> <shard> <nshards>   generate + execute
//!     exec                                         execute input lines read from stdin
mod rng;
mod gen;
mod c01;
mod c02;
mod c03;
mod c04;
mod c16;
mod c17;
mod c05;
mod c06;
mod c07;
mod c08;
mod c09;
mod c10;
mod c11;
mod c12;
mod c13;
mod c14;
mod c15;
mod c19;
mod c20;
mod c18;

use std::io::{BufRead, Write};
use std::panic;

fn exec_line(line: &str) -> String {
    let fields: Vec<&str> = line.split('\t').collect();
    if fields.len() < 2 { return "harness-bad-line".to_string(); }
    let prop = fields[0].to_string();
    let op = fields[1].to_string();
    let args: Vec<String> = fields[2..].iter().map(|s| s.to_string()).collect();
    let r = panic::catch_unwind(move || {
        let a: Vec<&str> = args.iter().map(|s| s.as_str()).collect();
        match prop.as_str() {
            "C01" => c01::exec(&op, &a),
            "C02" => c02::exec(&op, &a),
            "C03" => c03::exec(&op, &a),
            "C04" => c04::exec(&op, &a),
            "C16" => c16::exec(&op, &a),
            "C17" => c17::exec(&op, &a),
            "C05" => c05::exec(&op, &a),
            "C06" => c06::exec(&op, &a),
            "C07" => c07::exec(&op, &a),
            "C08" => c08::exec(&op, &a),
            "C09" => c09::exec(&op, &a),
            "C10" => c10::exec(&op, &a),
            "C11" => c11::exec(&op, &a),
            "C12" => c12::exec(&op, &a),
            "C13" => c13::exec(&op, &a),
            "C14" => c14::exec(&op, &a),
            "C15" => c15::exec(&op, &a),
            "C19" => c19::exec(&op, &a),
            "C20" => c20::exec(&op, &a),
            "C18" => c18::exec(&op, &a),
            _ => format!("harness-unknown-property {}", prop),
        }
    });
    match r {
        Ok(s) => s,
        Err(e) => {
            let msg = if let Some(s) = e.downcast_ref::<&str>() { s.to_string() }
                else if let Some(s) = e.downcast_ref::<String>() { s.clone() } else { String::from("?") };
            format!("panic:{}", classify_panic(&msg))
        }
    }
}

/// map panic messages to a small vocabulary
fn classify_panic(msg: &str) -> &'static str {
    let m = msg.to_ascii_lowercase();
    if m.contains("division by zero") || m.contains("divide by zero") { "div-by-zero" }
    else if m.contains("overflow") { "overflow" }
    else if m.contains("prim range") || m.contains("integer operand") || m.contains("no such") { "harness" }
    else { "other" }
}

fn main() {
    panic::set_hook(Box::new(|_| {}));
    let args: Vec<String> = std::env::args().collect();
    let stdout = std::io::stdout();
    let mut out = std::io::BufWriter::with_capacity(1 << 20, stdout.lock());
    match args.get(1).map(|s| s.as_str()) {
        Some("run") => {
            let prop = args[2].as_str();
            let tier = args[3].as_str();
            let seed: u64 = args[4].parse().expect("seed");
            let shard: usize = args.get(5).map(|s| s.parse().unwrap()).unwrap_or(0);
            let nshards: usize = args.get(6).map(|s| s.parse().unwrap()).unwrap_or(1);
            let mut rng = rng::Rng::new(seed);
            let mut emit = |line: String| {
                let r = exec_line(&line);
                writeln!(out, "{}\t=>\t{}", line, r).unwrap();
            };
            match prop {
                "C01" => c01::generate(&mut rng, tier, shard, nshards, &mut emit),
                "C02" => c02::generate(&mut rng, tier, shard, nshards, &mut emit),
                "C03" => c03::generate(&mut rng, tier, shard, nshards, &mut emit),
                "C04" => c04::generate(&mut rng, tier, shard, nshards, &mut emit),
                "C16" => c16::generate(&mut rng, tier, shard, nshards, &mut emit),
                "C17" => c17::generate(&mut rng, tier, shard, nshards, &mut emit),
                "C05" => c05::generate(&mut rng, tier, shard, nshards, &mut emit),
                "C06" => c06::generate(&mut rng, tier, shard, nshards, &mut emit),
                "C07" => c07::generate(&mut rng, tier, shard, nshards, &mut emit),
                "C08" => c08::generate(&mut rng, tier, shard, nshards, &mut emit),
                "C09" => c09::generate(&mut rng, tier, shard, nshards, &mut emit),
                "C10" => c10::generate(&mut rng, tier, shard, nshards, &mut emit),
                "C11" => c11::generate(&mut rng, tier, shard, nshards, &mut emit),
                "C12" => c12::generate(&mut rng, tier, shard, nshards, &mut emit),
                "C13" => c13::generate(&mut rng, tier, shard, nshards, &mut emit),
                "C14" => c14::generate(&mut rng, tier, shard, nshards, &mut emit),
                "C15" => c15::generate(&mut rng, tier, shard, nshards, &mut emit),
                "C19" => c19::generate(&mut rng, tier, shard, nshards, &mut emit),
                "C20" => c20::generate(&mut rng, tier, shard, nshards, &mut emit),
                "C18" => c18::generate(&mut rng, tier, shard, nshards, &mut emit),
                _ => { eprintln!("unknown property {}", prop); std::process::exit(2); }
            }
        }
        Some("config") => { writeln!(out, "{}", c20::cfg_string()).unwrap(); }
        Some("exec") => {
            let stdin = std::io::stdin();
            for line in stdin.lock().lines() {
                let line = line.unwrap();
                let line = match line.find("\t=>") { Some(i) => line[..i].to_string(), None => line };
                if line.trim().is_empty() { continue; }
                let r = exec_line(&line);
                writeln!(out, "{}\t=>\t{}", line, r).unwrap();
            }
        }
        _ => { eprintln!("usage: harness run <prop> <tier> <seed> [shard nshards] | exec"); std::process::exit(2); }
    }
    out.flush().unwrap();
}
