//! Correspondence harness: generates structured cases, runs the *real* bigdecimal code
//! in-process and prints one line per case:
//!     <prop> \t <op> \t <arg>… \t => \t <implementation output>
//! Sub-commands:
//!     run  <prop> <tier> <seed> <shard> <nshards>   generate + execute
//!     exec                                         execute input lines read from stdin
mod rng;
mod gen;
mod c01;
mod c02;
mod c03;
mod c04;
mod c16;
mod c17;
mod c05;
mod c06;
mod c07;
mod c08;
mod c09;
mod c10;
mod c11;
mod c12;
mod c13;
mod c14;
mod c15;
mod c19;
mod c20;
mod c18;

use std::io::{BufRead, Write};
use std::panic;

fn exec_line(line: &str) -> String {
    let fields: Vec<&str> = line.split('\t').collect();
    if fields.len() < 2 { return "harness-bad-line".to_string(); }
    let prop = fields[0].to_string();
    let op = fields[1].to_string();
    let args: Vec<String> = fields[2..].iter().map(|s| s.to_string()).collect();
    let r = panic::catch_unwind(move || {
        let a: Vec<&str> = args.iter().map(|s| s.as_str()).collect();
        match prop.as_str() {
            "C01" => c01::exec(&op, &a),
            "C02" => c02::exec(&op, &a),
            "C03" => c03::exec(&op, &a),
            "C04" => c04::exec(&op, &a),
            "C16" => c16::exec(&op, &a),
            "C17" => c17::exec(&op, &a),
            "C05" => c05::exec(&op, &a),
            "C06" => c06::exec(&op, &a),
            "C07" => c07::exec(&op, &a),
            "C08" => c08::exec(&op, &a),
            "C09" => c09::exec(&op, &a),
            "C10" => c10::exec(&op, &a),
            "C11" => c11::exec(&op, &a),
            "C12" => c12::exec(&op, &a),
            "C13" => c13::exec(&op, &a),
            "C14" => c14::exec(&op, &a),
            "C15" => c15::exec(&op, &a),
            "C19" => c19::exec(&op, &a),
            "C20" => c20::exec(&op, &a),
            "C18" => c18::exec(&op, &a),
            _ => format!("harness-unknown-property {}", prop),
        }
    });
    match r {
        Ok(s) => s,
        Err(e) => {
            let msg = if let Some(s) = e.downcast_ref::<&str>() { s.to_string() }
                else if let Some(s) = e.downcast_ref::<String>() { s.clone() } else { String::from("?") };
            format!("panic:{}", classify_panic(&msg))
        }
    }
}

/// map panic messages to a small vocabulary
fn classify_panic(msg: &str) -> &'static str {
    let m = msg.to_ascii_lowercase();
    if m.contains("division by zero") || m.contains("divide by zero") { "div-by-zero" }
    else if m.contains("overflow") { "overflow" }
    else if m.contains("prim range") || m.contains("integer operand") || m.contains("no such") { "harness" }
    else { "other" }
}

static TRACE_FILE: std::sync::OnceLock<Option<String>> = std::sync::OnceLock::new();

/// Output buffer and the case being executed, shared with the watchdog.
struct State { buf: Vec<u8>, current: Option<(String, std::time::Instant)>, last: Option<std::time::Instant>, prop: String }
static STATE: std::sync::Mutex<State> = std::sync::Mutex::new(State { buf: Vec::new(), current: None, last: None, prop: String::new() });

fn flush_locked(st: &mut State) {
    if !st.buf.is_empty() {
        let so = std::io::stdout();
        let mut lk = so.lock();
        let _ = lk.write_all(&st.buf);
        let _ = lk.flush();
        st.buf.clear();
    }
}

/// run one case under the watchdog and append its output line (whole lines only are ever written)
fn run_case(line: &str) {
    { let mut st = STATE.lock().unwrap(); st.current = Some((line.to_string(), std::time::Instant::now())); }
    // crash localisation (second pass of a shard that died): the case about to run is left in a side file,
    // so that an abort / stack overflow / out-of-memory kill still names its input
    if let Some(path) = TRACE_FILE.get().and_then(|p| p.as_ref()) {
        let _ = std::fs::write(path, line.as_bytes());
    }
    let r = exec_line(line);
    let mut st = STATE.lock().unwrap();
    st.current = None;
    st.last = Some(std::time::Instant::now());
    st.buf.extend_from_slice(line.as_bytes());
    st.buf.extend_from_slice(b"\t=>\t");
    st.buf.extend_from_slice(r.as_bytes());
    st.buf.push(b'\n');
    if st.buf.len() > (1 << 16) { flush_locked(&mut st); }
}

/// A case of the real code that does not return is a finding, not a reason to hang the check:
/// after the time limit the pending output and `<case> => hang` are written and the shard ends.
fn start_watchdog() {
    let limit = std::env::var("VERIF_CASE_TIMEOUT_S").ok().and_then(|s| s.parse::<u64>().ok()).unwrap_or(240);
    std::thread::spawn(move || loop {
        std::thread::sleep(std::time::Duration::from_millis(250));
        let mut st = STATE.lock().unwrap();
        let hung = match (&st.current, &st.last) {
            (Some((l, t0)), _) if t0.elapsed().as_secs() >= limit => Some(l.clone()),
            // between cases: the generator itself calls the library to build inputs
            (None, Some(t)) if t.elapsed().as_secs() >= 3 * limit.max(1) && !st.prop.is_empty() => Some(format!("{}\tgenerator", st.prop)),
            _ => None };
        if let Some(l) = hung {
            st.buf.extend_from_slice(l.as_bytes());
            st.buf.extend_from_slice(b"\t=>\thang\n");
            flush_locked(&mut st);
            std::process::exit(0);
        }
    });
}

fn main() {
    let _ = TRACE_FILE.set(std::env::var("VERIF_TRACE_FILE").ok());
    panic::set_hook(Box::new(|_| {}));
    let args: Vec<String> = std::env::args().collect();
    start_watchdog();
    match args.get(1).map(|s| s.as_str()) {
        Some("run") => {
            let prop = args[2].as_str();
            let tier = args[3].as_str();
            let seed: u64 = args[4].parse().expect("seed");
            let shard: usize = args.get(5).map(|s| s.parse().unwrap()).unwrap_or(0);
            let nshards: usize = args.get(6).map(|s| s.parse().unwrap()).unwrap_or(1);
            let mut rng = rng::Rng::new(seed);
            { let mut st = STATE.lock().unwrap(); st.prop = prop.to_string(); st.last = Some(std::time::Instant::now()); }
            let mut emit = |line: String| { run_case(&line); };
            match prop {
                "C01" => c01::generate(&mut rng, tier, shard, nshards, &mut emit),
                "C02" => c02::generate(&mut rng, tier, shard, nshards, &mut emit),
                "C03" => c03::generate(&mut rng, tier, shard, nshards, &mut emit),
                "C04" => c04::generate(&mut rng, tier, shard, nshards, &mut emit),
                "C16" => c16::generate(&mut rng, tier, shard, nshards, &mut emit),
                "C17" => c17::generate(&mut rng, tier, shard, nshards, &mut emit),
                "C05" => c05::generate(&mut rng, tier, shard, nshards, &mut emit),
                "C06" => c06::generate(&mut rng, tier, shard, nshards, &mut emit),
                "C07" => c07::generate(&mut rng, tier, shard, nshards, &mut emit),
                "C08" => c08::generate(&mut rng, tier, shard, nshards, &mut emit),
                "C09" => c09::generate(&mut rng, tier, shard, nshards, &mut emit),
                "C10" => c10::generate(&mut rng, tier, shard, nshards, &mut emit),
                "C11" => c11::generate(&mut rng, tier, shard, nshards, &mut emit),
                "C12" => c12::generate(&mut rng, tier, shard, nshards, &mut emit),
                "C13" => c13::generate(&mut rng, tier, shard, nshards, &mut emit),
                "C14" => c14::generate(&mut rng, tier, shard, nshards, &mut emit),
                "C15" => c15::generate(&mut rng, tier, shard, nshards, &mut emit),
                "C19" => c19::generate(&mut rng, tier, shard, nshards, &mut emit),
                "C20" => c20::generate(&mut rng, tier, shard, nshards, &mut emit),
                "C18" => c18::generate(&mut rng, tier, shard, nshards, &mut emit),
                _ => { eprintln!("unknown property {}", prop); std::process::exit(2); }
            }
        }
        Some("serdelimit") => {
            let mut st = STATE.lock().unwrap();
            st.buf.extend_from_slice(c17::built_scale_limit().to_string().as_bytes());
            st.buf.push(b'\n');
        }
        Some("config") => {
            let mut st = STATE.lock().unwrap();
            st.buf.extend_from_slice(c20::cfg_string().as_bytes());
            st.buf.push(b'\n');
        }
        Some("exec") => {
            let stdin = std::io::stdin();
            for line in stdin.lock().lines() {
                let line = line.unwrap();
                let line = match line.find("\t=>") { Some(i) => line[..i].to_string(), None => line };
                if line.trim().is_empty() || line.starts_with('#') { continue; }
                run_case(&line);
            }
        }
        _ => { eprintln!("usage: harness run <prop> <tier> <seed> [shard nshards] | exec"); std::process::exit(2); }
    }
    let mut st = STATE.lock().unwrap();
    flush_locked(&mut st);
}
