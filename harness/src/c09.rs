//! C09: remainder — executor and generator
use crate::gen::*;
use crate::rng::Rng;
use bigdecimal::num_bigint::BigInt;

pub fn exec(op: &str, args: &[&str]) -> String {
    match op {
        "rem" => {
            let a = parse_dec(args[1]).expect("a");
            let b = parse_dec(args[2]).expect("b");
            let r = match args[0] {
                "DD" => a.clone() % b.clone(),
                "DRD" => a.clone() % &b,
                "RDD" => &a % b.clone(),
                "RDRD" => &a % &b,
                "assign" => { let mut x = a.clone(); x %= &b; x }
                _ => panic!("no such rem form"),
            };
            show(&r)
        }
        _ => panic!("C09: unknown op {}", op),
    }
}

pub fn generate(rng: &mut Rng, tier: &str, shard: usize, nshards: usize, out: &mut dyn FnMut(String)) {
    let total = if tier == "thorough" { 2_000_000 } else { 120_000 };
    let forms = ["DD", "DRD", "RDD", "RDRD", "assign"];
    // magnitude boundary |a| ~ |b| * 10^gap for EVERY scale gap 0..2000 (the fractional part `x % 1` with a long
    // fraction is the everyday instance): a = |b|*10^gap + delta with delta in {0, -1, +1, small, 0.1% of a};
    // a shortcut that decides "|a| < |b|" from bit lengths is wrong exactly here
    {
        let mut n = 0usize;
        let step = if tier == "thorough" { 1 } else { 1 };
        let mut gap = 0u64;
        while gap <= 2000 {
            for ib in [1i64, -1, 7, 1000] {
                for dk in 0..5u32 {
                    n += 1;
                    let keep = n % nshards == shard;
                    let bmag = BigInt::from(ib.abs());
                    let top = &bmag * pow10(gap);
                    let delta: BigInt = match dk { 0 => BigInt::from(0), 1 => BigInt::from(-1), 2 => BigInt::from(1),
                        3 => BigInt::from(gen_int(rng, 6).magnitude().clone()),
                        _ => &top / BigInt::from(1 + rng.below(2000)) / BigInt::from(1000) };
                    let sb = rng.range(-50, 50);
                    let ia = (top + delta) * BigInt::from(if rng.chance(1, 2) { 1 } else { -1 });
                    let f = *rng.pick(&forms);
                    if keep { out(format!("C09\trem\t{}\t{}\t{}", f, show(&dec(ia, sb + gap as i64)), show(&dec(BigInt::from(ib), sb)))); }
                }
            }
            gap += step;
        }
    }
    for i in 0..total {
        let keep = i % nshards == shard;
        let max_len = if rng.chance(1, 15) { 2000 } else { 50 };
        let gap = crate::c01::gen_gap(rng, 10_000) as i64;
        let base = rng.range(-5000, 5000);
        let (sa, sb) = if rng.chance(1, 2) { (base, base + gap) } else { (base + gap, base) };
        let la = len_dist(rng, max_len);
        let ia = if rng.chance(1, 30) { BigInt::from(0) } else { gen_int_len(rng, la) };
        let mut a = dec(ia, sa);
        let kind = rng.below(10);
        let b = match kind {
            0 => dec(BigInt::from(0), sb),                                   // zero divisor: must panic
            1 => { // a is an exact multiple of b
                let lb = len_dist(rng, 30);
                let ib = gen_int_len(rng, lb);
                let m = gen_int(rng, 20);
                a = dec(&ib * m, sa);
                dec(ib, sb.min(sa))
            }
            2 => { // equal up to representation
                let (i, s) = a.as_bigint_and_exponent();
                let k = gap.min(300) as u64;
                dec(i * pow10(k), s + k as i64)
            }
            3 => { // |a| < |b| numerically: make b long
                let lb = la + 1 + rng.below(5) as usize;
                dec(gen_int_len(rng, lb), sb.min(sa))
            }
            _ => { let lb = len_dist(rng, max_len); dec(gen_int_len(rng, lb), sb) }
        };
        let f = *rng.pick(&forms);
        if keep { out(format!("C09\trem\t{}\t{}\t{}", f, show(&a), show(&b))); }
    }
}
