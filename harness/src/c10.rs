//! C10: square root — executor and generator
use crate::c06::{mode_of, MODES};
use crate::gen::*;
use crate::rng::Rng;
use bigdecimal::num_bigint::BigInt;
use bigdecimal::{BigDecimal, Context};
use std::num::NonZeroU64;
use std::str::FromStr;

pub fn ctx(p: &str, mode: &str) -> Context {
    Context::new(NonZeroU64::new(p.parse().expect("p")).expect("p>0"), mode_of(mode))
}

pub fn show_opt(r: Option<BigDecimal>) -> String { match r { Some(d) => format!("some:{}", show(&d)), None => "none".to_string() } }

pub fn exec(op: &str, args: &[&str]) -> String {
    match op {
        "sqrt" => {
            let a = parse_dec(args[1]).expect("a");
            let c = ctx(args[2], args[3]);
            show_opt(match args[0] {
                "ctx" => a.sqrt_with_context(&c),
                "default" => a.sqrt(),
                "ref" => a.to_ref().sqrt_with_context(&c),
                "abs" => Some(a.to_ref().sqrt_abs_with_context(&c)),
                "copysign" => Some(a.to_ref().sqrt_copysign_with_context(&c)),
                _ => panic!("no such sqrt form"),
            })
        }
        _ => panic!("C10: unknown op {}", op),
    }
}

/// integer square root (for building perfect squares)
fn isqrt(n: &BigInt) -> BigInt { n.sqrt() }

pub fn gen_radicand(rng: &mut Rng, p: u64) -> BigDecimal {
    let scale = rng.range(-2000, 2000);
    match rng.below(10) {
        0 | 1 => { // perfect square
            let l = len_dist(rng, 200); let r = gen_int_len(rng, l).magnitude().clone(); dec(BigInt::from(&r * &r), scale & !1) }
        2 | 3 => { // perfect square +- 1 in a far-away digit: (r^2) * 10^(2k) +- 1
            let l = 1 + rng.below(20) as usize; let r = BigInt::from(gen_int_len(rng, l).magnitude().clone());
            let k = rng.below(60);
            let v = &r * &r * pow10(2 * k) + BigInt::from(if rng.chance(1, 2) { 1 } else { -1 });
            dec(if v <= BigInt::from(0) { BigInt::from(2) } else { v }, (scale & !1) + 2 * k as i64 * 0 + rng.range(0, 1)) }
        4 | 5 => { // root with digits ...5000..0x / ...4999..9x after the p-th: square a crafted root and perturb
            let head = gen_int_len(rng, p as usize).magnitude().clone();
            let tail = if rng.chance(1, 2) { "5".to_string() + &"0".repeat(rng.below(30) as usize) } else { "4".to_string() + &"9".repeat(rng.below(30) as usize) };
            let root = BigInt::from_str(&format!("{}{}", head, tail)).unwrap();
            let sq = &root * &root + BigInt::from(rng.range(-2, 2));
            dec(if sq <= BigInt::from(0) { BigInt::from(3) } else { sq }, scale) }
        6 => { // many more digits than 2(p+5)
            let l = (2 * (p as usize + 5) + 1 + rng.below(300) as usize).min(2000);
            dec(BigInt::from(gen_int_len(rng, l).magnitude().clone()), scale) }
        7 => { // s(s+1) and s(s+2) with s = head * 10^k or head|5000..0 : inexact roots whose discarded digits are all zero / an exact half
            let hl = 1 + rng.below(p.min(30) + 1) as usize;
            let head = BigInt::from(gen_int_len(rng, hl).magnitude().clone());
            let k = rng.below(70);
            let s = if rng.chance(1, 2) { &head * pow10(k) } else { (&head * BigInt::from(10) + BigInt::from(5)) * pow10(k) };
            let v = &s * (&s + BigInt::from(rng.range(1, 2)));
            dec(v, (scale & !1) + rng.range(0, 1)) }
        8 => dec(pow10(rng.below(400)) * BigInt::from(rng.range(1, 9)), scale),
        _ => { let ml = if rng.chance(1, 10) { 2000 } else { 60 }; dec(BigInt::from(gen_int(rng, ml).magnitude().clone()), scale) }
    }
}

pub fn generate(rng: &mut Rng, tier: &str, shard: usize, nshards: usize, out: &mut dyn FnMut(String)) {
    let total = if tier == "thorough" { 1_200_000 } else { 80_000 };
    for i in 0..total {
        let keep = i % nshards == shard;
        let p: u64 = match rng.below(6) { 0 => 100, 1 => 1 + rng.below(5), 2 => 1 + rng.below(150), _ => 1 + rng.below(40) };
        let mut a = gen_radicand(rng, p);
        let r = rng.below(40);
        if r == 0 { a = dec(BigInt::from(0), rng.range(-30, 30)); }
        if r == 1 { a = -a; }
        if r == 2 { let k = rng.range(0, 20); a = dec(pow10(k as u64), k); }
        let (mn, _) = *rng.pick(MODES);
        let form = match rng.below(10) { 0 => "ref", 1 => "abs", 2 => "copysign", _ => "ctx" };
        let a2 = if (form == "abs" || form == "copysign") && rng.chance(1, 2) { -a.clone() } else { a.clone() };
        if keep { out(format!("C10\tsqrt\t{}\t{}\t{}\t{}", form, show(&a2), p, mn)); }
    }
}
