//! C04: every textual rendering parses back — executor and generator
use crate::gen::*;
use crate::rng::Rng;
use bigdecimal::num_bigint::BigInt;
use bigdecimal::BigDecimal;
use std::str::FromStr;

pub fn render(kind: &str, a: &BigDecimal) -> String {
    match kind {
        "display" => format!("{}", a),
        "tostring" => a.to_string(),
        "display_ref" => format!("{}", a.to_ref()),
        "lowerexp" => format!("{:e}", a),
        "upperexp" => format!("{:E}", a),
        "lowerexp_ref" => format!("{:e}", a.to_ref()),
        "upperexp_ref" => format!("{:E}", a.to_ref()),
        "sci" => a.to_scientific_notation(),
        "eng" => a.to_engineering_notation(),
        "plain" => a.to_plain_string(),
        _ => panic!("no such rendering"),
    }
}

pub fn exec(op: &str, args: &[&str]) -> String {
    match op {
        "render" => {
            let a = parse_dec(args[1]).expect("a");
            let text = render(args[0], &a);
            let re = match BigDecimal::from_str(&text) { Ok(d) => format!("ok:{}", show(&d)), Err(_) => "err".to_string() };
            format!("{}|{}", text, re)
        }
        _ => panic!("C04: unknown op {}", op),
    }
}

pub const KINDS: &[&str] = &["display", "tostring", "display_ref", "lowerexp", "upperexp", "lowerexp_ref", "upperexp_ref", "sci", "eng", "plain"];

pub fn generate(rng: &mut Rng, tier: &str, shard: usize, nshards: usize, out: &mut dyn FnMut(String)) {
    let thorough = tier == "thorough";
    let mut n = 0usize;
    let mut emit = |kind: &str, a: &BigDecimal, n: &mut usize| {
        *n += 1;
        if *n % nshards == shard { out(format!("C04\trender\t{}\t{}\t-", kind, show(a))); }
    };
    // 1. every scale in [-40, 60] x every digit length 1..40 x {random, all nines, power of ten}
    let kinds_per = if thorough { KINDS.len() } else { 5 };
    for scale in -40..=60i64 {
        for len in 1..=40usize {
            let ints: Vec<BigInt> = vec![
                BigInt::from_str(&format!("{}{}", 1 + rng.below(9), (1..len).map(|_| char::from(b'0' + rng.below(10) as u8)).collect::<String>())).unwrap(),
                BigInt::from_str(&"9".repeat(len)).unwrap(),
                pow10(len as u64 - 1),
            ];
            for i in ints {
                let a = dec(if rng.chance(1, 2) { -i } else { i }, scale);
                if thorough { for k in KINDS { emit(k, &a, &mut n); } }
                else { for _ in 0..kinds_per { let k = *rng.pick(KINDS); emit(k, &a, &mut n); } }
            }
        }
        // zero with this scale
        let z = dec(BigInt::from(0), scale);
        for k in KINDS { emit(k, &z, &mut n); }
    }
    // 2. random: 1..3000 digits, scales up to +-10^15 (plain notation only for moderate scales)
    let total = if thorough { 600_000 } else { 40_000 };
    for _ in 0..total {
        let max_len = if rng.chance(1, 20) { 3000 } else { 50 };
        let i = if rng.chance(1, 40) { BigInt::from(0) } else { gen_int(rng, max_len) };
        let scale = match rng.below(6) {
            0 => rng.range(-1_000_000_000_000_000, 1_000_000_000_000_000),
            1 => rng.range(-5000, 5000),
            2 => { // 0.000ddd around the leading-zero threshold
                let l = i.to_string().trim_start_matches('-').len() as i64; l + rng.range(0, 9) }
            3 => -rng.range(10, 22),   // integers around the trailing-zero threshold
            _ => rng.range(-60, 80),
        };
        let a = dec(i, scale);
        let k = *rng.pick(KINDS);
        if k == "plain" && scale.abs() > 5000 { continue; }
        emit(k, &a, &mut n);
    }
}
