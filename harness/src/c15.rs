//! C15: integer conversions — executor and generator
use crate::c01::{with_prim, PRIMS, prim_range};
use crate::gen::*;
use crate::rng::Rng;
use bigdecimal::num_bigint::{BigInt, ToBigInt};
use bigdecimal::num_traits::{FromPrimitive, ToPrimitive};
use bigdecimal::BigDecimal;
use std::str::FromStr;

fn opt<T: std::fmt::Display>(x: Option<T>) -> String {
    match x { Some(v) => format!("some:{}", v), None => "none".to_string() }
}

pub fn exec(op: &str, args: &[&str]) -> String {
    match op {
        "conv" => {
            let a = parse_dec(args[1]).expect("a");
            match args[0] {
                "to_i64" => opt(a.to_i64()),
                "to_i128" => opt(a.to_i128()),
                "to_u64" => opt(a.to_u64()),
                "to_u128" => opt(a.to_u128()),
                "ref_to_i64" => opt(a.to_ref().to_i64()),
                "ref_to_i128" => opt(a.to_ref().to_i128()),
                "ref_to_u64" => opt(a.to_ref().to_u64()),
                "ref_to_u128" => opt(a.to_ref().to_u128()),
                "to_bigint" => format!("{}", a.to_bigint().expect("to_bigint is always Some")),
                "is_integer" => format!("{}", a.is_integer()),
                _ => panic!("no such conv"),
            }
        }
        "from" => {
            let v = BigInt::from_str(args[1]).expect("v");
            let pt = args[0];
            let (kind, pt) = match pt.split_once(':') { Some((k, p)) => (k, p), None => ("val", pt) };
            match kind {
                "val" => with_prim!(pt, v, |p| show(&BigDecimal::from(p))),
                "ref" => with_prim!(pt, v, |p| show(&BigDecimal::from(&p))),
                "fp" => match pt {
                    "i64" => show(&BigDecimal::from_i64(v.to_i64().unwrap()).unwrap()),
                    "u64" => show(&BigDecimal::from_u64(v.to_u64().unwrap()).unwrap()),
                    "i128" => show(&BigDecimal::from_i128(v.to_i128().unwrap()).unwrap()),
                    "u128" => show(&BigDecimal::from_u128(v.to_u128().unwrap()).unwrap()),
                    _ => panic!("no such fp"),
                },
                "bigint" => show(&BigDecimal::from(v)),
                _ => panic!("no such from kind"),
            }
        }
        _ => panic!("C15: unknown op {}", op),
    }
}

pub fn generate(rng: &mut Rng, tier: &str, shard: usize, nshards: usize, out: &mut dyn FnMut(String)) {
    let thorough = tier == "thorough";
    let convs = ["to_i64", "to_i128", "to_u64", "to_u128", "ref_to_i64", "ref_to_i128", "ref_to_u64", "ref_to_u128", "to_bigint", "is_integer"];
    let limits: Vec<BigInt> = vec![
        BigInt::from(i64::MIN), BigInt::from(i64::MAX), BigInt::from(u64::MAX), BigInt::from(i128::MIN),
        BigInt::from(i128::MAX), BigInt::from(u128::MAX), BigInt::from(0), -BigInt::from(u64::MAX), -BigInt::from(u128::MAX),
    ];
    let mut n = 0usize;
    let mut emit = |line: String, n: &mut usize| { *n += 1; if *n % nshards == shard { out(line); } };
    // 1. values within ±2 and ±0.5 of each limit, at scales -40..40
    let reps = if thorough { 40 } else { 4 };
    for lim in &limits {
        for delta10 in [-25i64, -20, -15, -10, -5, -1, 0, 1, 5, 10, 15, 20, 25] {
            for _ in 0..reps {
                // value = lim + delta10/10, written at a random scale >= 1 (extra trailing zeros) or moved to a negative scale when divisible
                let s = rng.range(1, 40);
                let int = (lim * BigInt::from(10) + BigInt::from(delta10)) * pow10(s as u64 - 1);
                let a = dec(int, s);
                for c in convs { emit(format!("C15\tconv\t{}\t{}", c, show(&a)), &mut n); }
                // same integer part with a random fractional tail
                let tail = gen_uint(rng, 12);
                let sgn: BigInt = if *lim < BigInt::from(0) { BigInt::from(-1) } else { BigInt::from(1) };
                let l = tail.to_string().len() as i64;
                let b = dec((lim + BigInt::from(delta10 / 10)) * pow10(l as u64) + sgn * BigInt::from(tail), l);
                for c in convs { emit(format!("C15\tconv\t{}\t{}", c, show(&b)), &mut n); }
            }
        }
    }
    // 1b. the scale-0 fast paths: integers within ±3 of each limit at scale 0, and at a negative
    //     scale whenever the integer is divisible by a power of ten
    for lim in &limits {
        for d in -3i64..=3 {
            let v = lim + BigInt::from(d);
            let a = dec(v.clone(), 0);
            for c in convs { emit(format!("C15\tconv\t{}\t{}", c, show(&a)), &mut n); }
            let mut k = 0i64; let mut w = v.clone();
            while w != BigInt::from(0) && (&w % BigInt::from(10)) == BigInt::from(0) && k < 3 { w = w / BigInt::from(10); k += 1;
                let b = dec(w.clone(), -k);
                for c in convs { emit(format!("C15\tconv\t{}\t{}", c, show(&b)), &mut n); } }
        }
    }
    // 1c. random integers at scale 0 around the 63/64/127/128-bit sizes
    for _ in 0..(if thorough { 20_000 } else { 2_000 }) {
        let bits = *rng.pick(&[62u64, 63, 64, 65, 126, 127, 128, 129]);
        let mut v = BigInt::from(1) << (bits as usize);
        v = v - BigInt::from(rng.below(3) as i64) * (BigInt::from(1) << (rng.below(bits) as usize)) - BigInt::from(rng.range(-2, 2));
        if rng.below(2) == 0 { v = -v; }
        let a = dec(v, 0);
        let c = *rng.pick(&convs);
        emit(format!("C15\tconv\t{}\t{}", c, show(&a)), &mut n);
    }
    // 2. negative scales pushing a small unscaled value past a limit; fractions in (-1, 1)
    let total = if thorough { 300_000 } else { 25_000 };
    for _ in 0..total {
        let a = match rng.below(5) {
            0 => { let k = rng.range(1, 40); dec(gen_int(rng, 6), -k) }
            1 => { let l = 1 + rng.below(30) as usize; dec(gen_int_len(rng, l), l as i64 + rng.range(0, 10)) }  // |x| < 1
            2 => dec(BigInt::from(0), rng.range(-40, 40)),
            3 => dec(gen_int(rng, 60), rng.range(-40, 40)),
            _ => { // exact integers written with trailing zeros
                let k = rng.range(0, 30);
                dec(gen_int(rng, 30) * pow10(k as u64), k)
            }
        };
        let c = *rng.pick(&convs);
        emit(format!("C15\tconv\t{}\t{}", c, show(&a)), &mut n);
    }
    // 3. From for every primitive width: MIN, MAX, 0, ±1, random
    for pt in PRIMS {
        let (lo, hi) = prim_range(pt);
        let mut vals = vec![lo.clone(), hi.clone(), BigInt::from(0), BigInt::from(1)];
        if lo < BigInt::from(0) { vals.push(BigInt::from(-1)); }
        for _ in 0..20 { vals.push(crate::c01::gen_prim(rng, pt)); }
        for v in vals {
            emit(format!("C15\tfrom\t{}\t{}", pt, v), &mut n);
            emit(format!("C15\tfrom\tref:{}\t{}", pt, v), &mut n);
            if ["i64", "u64", "i128", "u128"].contains(pt) { emit(format!("C15\tfrom\tfp:{}\t{}", pt, v), &mut n); }
        }
    }
    for _ in 0..200 { emit(format!("C15\tfrom\tbigint:-\t{}", gen_int(rng, 200)), &mut n); }
}
