//! C19: straight-line programs of exact operations on an accumulator
use crate::c01::{exec_bin, exec_un, gen_operand, gen_prim, OPS, PRIMS};
use crate::gen::*;
use crate::rng::Rng;
use bigdecimal::num_bigint::BigInt;
use bigdecimal::BigDecimal;
use std::collections::hash_map::DefaultHasher;
use std::hash::{Hash, Hasher};

fn hash_of(d: &BigDecimal) -> u64 {
    let mut h = DefaultHasher::new();
    d.hash(&mut h);
    h.finish()
}

fn is_int_form(f: &str) -> bool { matches!(f, "BI" | "RBI" | "P" | "RP") }

pub fn exec(op: &str, args: &[&str]) -> String {
    match op {
        "prog" => {
            let mut acc = parse_dec(args[0]).expect("acc0");
            let mut outs: Vec<String> = Vec::new();
            for st in &args[1..] {
                let f: Vec<&str> = st.split(',').collect();
                let prev = acc.clone();
                acc = match f[0] {
                    "bin" => {
                        let x = parse_dec(f[5]).expect("operand");
                        if f[4] == "L" { exec_bin(f[1], f[2], f[3], &acc, &x, f[6]) } else { exec_bin(f[1], f[2], f[3], &x, &acc, f[6]) }
                    }
                    "neg" | "abs" | "double" | "half" | "square" | "cube" => exec_un(f[0], &acc),
                    "normalize" => acc.normalized(),
                    "cloneref" => { let r = acc.to_ref(); let mut d = BigDecimal::from(0); r.clone_into(&mut d); let e = r.to_owned(); assert!(d == e); d }
                    "rescale" => { let k: i64 = f[1].parse().unwrap(); let s = acc.fractional_digit_count(); acc.with_scale(s + k) }
                    "sum" => {
                        let mut xs: Vec<BigDecimal> = vec![acc.clone()];
                        for x in &f[2..] { xs.push(parse_dec(x).expect("sum operand")); }
                        if f[1] == "owned" { xs.into_iter().sum() } else { xs.iter().sum() }
                    }
                    _ => panic!("no such step {}", f[0]),
                };
                let c = match acc.cmp(&prev) { std::cmp::Ordering::Less => "L", std::cmp::Ordering::Equal => "E", std::cmp::Ordering::Greater => "G" };
                let e = if acc == prev { 1 } else { 0 };
                let twin = acc.with_scale(acc.fractional_digit_count() + 3);
                let h = if hash_of(&acc) == hash_of(&twin) && acc == twin { 1 } else { 0 };
                outs.push(format!("{}:{}:{}:{}", show(&acc), c, e, h));
            }
            outs.join(";")
        }
        _ => panic!("C19: unknown op {}", op),
    }
}

pub fn generate(rng: &mut Rng, tier: &str, shard: usize, nshards: usize, out: &mut dyn FnMut(String)) {
    let total = if tier == "thorough" { 600_000 } else { 40_000 };
    for i in 0..total {
        let keep = i % nshards == shard;
        let len = 1 + rng.below(40) as usize;
        let s0 = rng.range(-40, 40);
        let acc0 = gen_operand(rng, 30, s0);
        // shadow evaluation only to keep the size of the accumulator bounded while generating
        let mut shadow = acc0.clone();
        let mut steps: Vec<String> = Vec::new();
        // a pool of operands: random, zero-with-scale, one-with-zeros, powers of ten, value-equal twins
        let mut pool: Vec<BigDecimal> = Vec::new();
        for _ in 0..4 { let s = rng.range(-30, 30); pool.push(gen_operand(rng, 25, s)); }
        pool.push(dec(BigInt::from(0), rng.range(-50, 50)));
        let k = rng.range(0, 20); pool.push(dec(pow10(k as u64), k));
        pool.push(dec(pow10(rng.below(20)), rng.range(-20, 20)));
        { let (i0, s1) = pool[0].as_bigint_and_exponent(); let k = rng.below(25); pool.push(dec(i0 * pow10(k), s1 + k as i64)); }
        for _ in 0..len {
            let big = shadow.digits() > 1500 || shadow.fractional_digit_count().abs() > 4000;
            let r = rng.below(100);
            let st = if r < 62 {
                // binary op with a random overload
                let (op, lf, rf) = loop {
                    let c = *rng.pick(OPS);
                    if big && c.0.starts_with("mul") { continue; }
                    break c;
                };
                // accumulator side: it must sit in a decimal position; assign forms need it on the left
                let l_ok = !is_int_form(lf);
                let r_ok = !is_int_form(rf) && !op.ends_with("assign");
                let left = if l_ok && r_ok { rng.chance(1, 2) } else { l_ok };
                let of = if left { rf } else { lf };
                let prim = of == "P" || of == "RP";
                let pt = if prim { *rng.pick(PRIMS) } else { "-" };
                let x = if prim { dec(gen_prim(rng, pt), 0) }
                    else if is_int_form(of) { dec(gen_int(rng, 12), 0) }
                    else { rng.pick(&pool).clone() };
                shadow = if left { exec_bin(op, lf, rf, &shadow, &x, pt) } else { exec_bin(op, lf, rf, &x, &shadow, pt) };
                format!("bin,{},{},{},{},{},{}", op, lf, rf, if left { "L" } else { "R" }, show(&x), pt)
            } else if r < 84 {
                let names: &[&str] = if big { &["neg", "abs", "double", "half", "normalize", "cloneref"] }
                    else { &["neg", "abs", "double", "half", "square", "cube", "normalize", "cloneref"] };
                let name = *rng.pick(names);
                shadow = match name {
                    "normalize" => shadow.normalized(),
                    "cloneref" => shadow.clone(),
                    _ => exec_un(name, &shadow),
                };
                name.to_string()
            } else if r < 92 {
                let k = if rng.chance(1, 8) { rng.range(0, 700) } else { rng.range(0, 30) };
                shadow = shadow.with_scale(shadow.fractional_digit_count() + k);
                format!("rescale,{}", k)
            } else {
                let cnt = rng.below(4) as usize;
                let kind = if rng.chance(1, 2) { "owned" } else { "refs" };
                let mut s = format!("sum,{}", kind);
                let mut xs = vec![shadow.clone()];
                for _ in 0..cnt { let x = rng.pick(&pool).clone(); s.push(','); s.push_str(&show(&x)); xs.push(x); }
                shadow = xs.into_iter().sum();
                s
            };
            steps.push(st);
        }
        if keep { out(format!("C19\tprog\t{}\t{}", show(&acc0), steps.join("\t"))); }
    }
}
