//! C03: Hash agrees with equality — executor and generator
use crate::gen::*;
use crate::rng::Rng;
use bigdecimal::num_bigint::BigInt;
use bigdecimal::BigDecimal;
use std::collections::hash_map::DefaultHasher;
use std::hash::{Hash, Hasher};

/// records every byte written
#[derive(Default)]
struct Recorder(Vec<u8>);
impl Hasher for Recorder {
    fn finish(&self) -> u64 { 0 }
    fn write(&mut self, bytes: &[u8]) { self.0.extend_from_slice(bytes); }
}

/// FNV-1a
struct Fnv(u64);
impl Hasher for Fnv {
    fn finish(&self) -> u64 { self.0 }
    fn write(&mut self, bytes: &[u8]) { for b in bytes { self.0 ^= *b as u64; self.0 = self.0.wrapping_mul(0x100000001b3); } }
}

/// a hasher that mixes the *lengths* of the write calls too (sensitive to chunking)
struct Chunky(u64);
impl Hasher for Chunky {
    fn finish(&self) -> u64 { self.0 }
    fn write(&mut self, bytes: &[u8]) {
        self.0 = self.0.rotate_left(7) ^ (bytes.len() as u64).wrapping_mul(0x9E3779B97F4A7C15);
        for b in bytes { self.0 = self.0.rotate_left(5) ^ (*b as u64); }
    }
}

fn recorded(d: &BigDecimal) -> Vec<u8> { let mut r = Recorder::default(); d.hash(&mut r); r.0 }
fn h_default(d: &BigDecimal) -> u64 { let mut h = DefaultHasher::new(); d.hash(&mut h); h.finish() }
fn h_fnv(d: &BigDecimal) -> u64 { let mut h = Fnv(0xcbf29ce484222325); d.hash(&mut h); h.finish() }
fn h_chunky(d: &BigDecimal) -> u64 { let mut h = Chunky(1); d.hash(&mut h); h.finish() }

pub fn exec(op: &str, args: &[&str]) -> String {
    match op {
        "bytes" => {
            let a = parse_dec(args[0]).expect("a");
            let bytes = recorded(&a);
            let mut s = String::new();
            for (i, b) in bytes.iter().enumerate() {
                if i + 1 == bytes.len() && *b == 0xff { s.push_str("|ff"); }
                else if b.is_ascii_graphic() { s.push(*b as char); }
                else { s.push_str(&format!("\\x{:02x}", b)); }
            }
            s
        }
        "pair" => {
            let a = parse_dec(args[0]).expect("a");
            let b = parse_dec(args[1]).expect("b");
            format!("{} {} {} {} {}", (a == b) as u8, (recorded(&a) == recorded(&b)) as u8,
                (h_default(&a) == h_default(&b)) as u8, (h_chunky(&a) == h_chunky(&b)) as u8, (h_fnv(&a) == h_fnv(&b)) as u8)
        }
        _ => panic!("C03: unknown op {}", op),
    }
}

pub fn generate(rng: &mut Rng, tier: &str, shard: usize, nshards: usize, out: &mut dyn FnMut(String)) {
    let total = if tier == "thorough" { 1_200_000 } else { 100_000 };
    for i in 0..total {
        let keep = i % nshards == shard;
        let max_len = if rng.chance(1, 20) { 800 } else { 30 };
        let s = match rng.below(4) { 0 => rng.range(-100_000, 100_000), 1 => rng.range(-6, 6), _ => rng.range(-60, 60) };
        let a = if rng.chance(1, 12) { dec(BigInt::from(0), s) } else { crate::c01::gen_operand(rng, max_len, s) };
        let (ai, asc) = a.as_bigint_and_exponent();
        let kind = rng.below(10);
        let b = match kind {
            0..=3 => { let k = if rng.chance(1, 8) { rng.below(2000) } else { rng.below(201) }; dec(&ai * pow10(k), asc + k as i64) }  // extra trailing zeros
            4 => { // strip zeros the other way round: negative scale versus written-out zeros
                let n = a.normalized(); n }
            5 => dec(BigInt::from(0), rng.range(-100_000, 100_000)),
            6 => dec(-ai.clone(), asc),
            7 => dec(&ai + BigInt::from(1), asc),
            8 => dec(ai.clone(), asc + rng.range(-3, 3)),         // same digits, shifted: usually different value
            _ => { let k = rng.below(30); dec(&ai * pow10(k) + BigInt::from(rng.range(0, 1)), asc + k as i64) }
        };
        if keep {
            out(format!("C03\tpair\t{}\t{}", show(&a), show(&b)));
            if i % 3 == 0 && asc.abs() <= 3000 { out(format!("C03\tbytes\t{}", show(&a))); }
        }
    }
}
