//! SplitMix64: the single source of randomness (seeded from VERIF_SEED)
pub struct Rng(pub u64);

impl Rng {
    pub fn new(seed: u64) -> Self { Rng(seed ^ 0x9E37_79B9_7F4A_7C15) }
    pub fn next(&mut self) -> u64 {
        self.0 = self.0.wrapping_add(0x9E37_79B9_7F4A_7C15);
        let mut z = self.0;
        z = (z ^ (z >> 30)).wrapping_mul(0xBF58_476D_1CE4_E5B9);
        z = (z ^ (z >> 27)).wrapping_mul(0x94D0_49BB_1331_11EB);
        z ^ (z >> 31)
    }
    /// uniform in [0, n)
    pub fn below(&mut self, n: u64) -> u64 { if n == 0 { 0 } else { self.next() % n } }
    /// uniform in [lo, hi]
    pub fn range(&mut self, lo: i64, hi: i64) -> i64 {
        // wrapping on purpose: ranges spanning more than half of i64 (the harness is built with overflow checks)
        lo.wrapping_add(self.below(hi.wrapping_sub(lo).wrapping_add(1) as u64) as i64)
    }
    pub fn chance(&mut self, num: u64, den: u64) -> bool { self.below(den) < num }
    pub fn pick<'a, T>(&mut self, xs: &'a [T]) -> &'a T { &xs[self.below(xs.len() as u64) as usize] }
}
