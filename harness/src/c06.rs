//! C06: rounding to a scale — executor and generator
use crate::gen::*;
use crate::rng::Rng;
use bigdecimal::num_bigint::{BigInt, Sign};
use bigdecimal::{BigDecimal, RoundingMode};
use std::str::FromStr;

pub const MODES: &[(&str, RoundingMode)] = &[
    ("Up", RoundingMode::Up), ("Down", RoundingMode::Down), ("Ceiling", RoundingMode::Ceiling),
    ("Floor", RoundingMode::Floor), ("HalfUp", RoundingMode::HalfUp), ("HalfDown", RoundingMode::HalfDown),
    ("HalfEven", RoundingMode::HalfEven),
];

pub fn mode_of(s: &str) -> RoundingMode {
    MODES.iter().find(|(n, _)| *n == s).expect("mode").1
}

pub fn mode_name(m: RoundingMode) -> &'static str {
    MODES.iter().find(|(_, x)| *x == m).unwrap().0
}

pub fn exec(op: &str, args: &[&str]) -> String {
    match op {
        "wsr" => {
            let a = parse_dec(args[0]).expect("a");
            let ns: i64 = args[1].parse().expect("ns");
            show(&a.with_scale_round(ns, mode_of(args[2])))
        }
        "ws" => {
            let a = parse_dec(args[0]).expect("a");
            let ns: i64 = args[1].parse().expect("ns");
            show(&a.with_scale(ns))
        }
        "round" => {
            let a = parse_dec(args[0]).expect("a");
            let n: i64 = args[1].parse().expect("n");
            show(&a.round(n))
        }
        "roundpair" => {
            let m = mode_of(args[0]);
            let sign = match args[1] { "Minus" => Sign::Minus, "NoSign" => Sign::NoSign, _ => Sign::Plus };
            let l: u8 = args[2].parse().unwrap();
            let r: u8 = args[3].parse().unwrap();
            format!("{}", m.round_pair(sign, (l, r), args[4] == "1"))
        }
        _ => panic!("C06: unknown op {}", op),
    }
}

/// a number whose digits after the cut (k low digits) form a tie / near-tie / zero / nines tail
pub fn gen_cut_number(rng: &mut Rng, head_len: usize, k: usize) -> BigInt {
    let mut s = String::new();
    if head_len > 0 { s.push_str(&digit_string(rng, head_len)); }
    if k > 0 {
        let shape = rng.below(8);
        let mut t = String::with_capacity(k);
        match shape {
            0 => { t.push('5'); for _ in 1..k { t.push('0'); } }
            1 => { t.push('4'); for _ in 1..k { t.push('9'); } }
            2 => { t.push('5'); for _ in 1..k { t.push('0'); } if k > 1 { t.pop(); t.push('1'); } }
            3 => { for _ in 0..k { t.push('0'); } }
            4 => { for _ in 0..k { t.push('0'); } t.pop(); t.push('1'); }
            5 => { for _ in 0..k { t.push('9'); } }
            _ => { for _ in 0..k { t.push((b'0' + rng.below(10) as u8) as char); } }
        }
        s.push_str(&t);
    }
    let s = s.trim_start_matches('0');
    let u = if s.is_empty() { BigInt::from(0) } else { BigInt::from_str(s).unwrap() };
    if rng.chance(1, 2) { -u } else { u }
}

pub fn generate(rng: &mut Rng, tier: &str, shard: usize, nshards: usize, out: &mut dyn FnMut(String)) {
    let thorough = tier == "thorough";
    let cfg_mode = mode_name(RoundingMode::default());
    // 1. all 4200 arguments of the digit-pair primitive (shard 0)
    if shard == 0 {
        for (mn, _) in MODES {
            for sign in ["Minus", "NoSign", "Plus"] {
                for l in 0..10 { for r in 0..10 { for tz in 0..2 {
                    out(format!("C06\troundpair\t{}\t{}\t{}\t{}\t{}", mn, sign, l, r, tz));
                }}}
            }
        }
    }
    // 2. exhaustive small scope, exactly as the quantifier says; quick keeps a 1/stride slice
    let stride: u64 = if thorough { 1 } else { 60 };
    let offset = rng.below(stride);
    let mut idx: u64 = 0;
    for v in 0..100_000i64 {
        let digits = if v == 0 { 1 } else { (v as f64).log10().floor() as i64 + 1 };
        for neg in [false, true] {
            if v == 0 && neg { continue; }
            let iv = if neg { -v } else { v };
            for scale in -3..=8i64 {
                for ns in (scale - digits - 4)..=(scale + 4) {
                    idx += 1;
                    if idx % (stride * nshards as u64) != offset * nshards as u64 + shard as u64 { continue; }
                    for (mn, _) in MODES {
                        out(format!("C06\twsr\t{}@{}\t{}\t{}", iv, scale, ns, mn));
                    }
                }
            }
        }
    }
    // 3. random long inputs with structured tails
    let n_rand = if thorough { 400_000 } else { 24_000 };
    for i in 0..n_rand {
        let keep = i % nshards == shard;
        let max_len = if rng.chance(1, 12) { 3000 } else { 60 };
        let len = len_dist(rng, max_len);
        // cut position k: inside the digits, at either end, or beyond
        let k: i64 = match rng.below(10) {
            0 => len as i64,                       // rounding point just left of the leading digit
            1 => len as i64 + 1 + rng.below(5) as i64,   // far left
            2 => -(rng.below(6) as i64),           // extension
            3 => 1,
            _ => 1 + rng.below(len as u64) as i64,
        };
        let kk = k.max(0) as usize;
        let head = len.saturating_sub(kk);
        let int = if rng.chance(1, 40) { BigInt::from(0) } else { gen_cut_number(rng, head, kk.min(len + 6)) };
        let scale = rng.range(-50, 3050);
        let ns = scale - k;
        let a = dec(int, scale);
        let which = rng.below(10);
        let (mn, _) = *rng.pick(MODES);
        if !keep { continue; }
        if which < 7 {
            out(format!("C06\twsr\t{}\t{}\t{}", show(&a), ns, mn));
        } else if which < 9 {
            out(format!("C06\tws\t{}\t{}", show(&a), ns));
        } else {
            out(format!("C06\tround\t{}\t{}\t{}", show(&a), ns, cfg_mode));
        }
    }
}
