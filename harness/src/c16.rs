//! C16: precision formatting and flags — executor and generator
use crate::gen::*;
use crate::rng::Rng;
use bigdecimal::num_bigint::BigInt;
use bigdecimal::BigDecimal;

/// format `a` with run-time chosen flags; every (fill/align, plus, zero, kind, precision?) combination
/// is a separate literal format string
macro_rules! fmt_arms {
    ($a:expr, $w:expr, $p:expr, $key:expr; $( ($fa:literal, $plus:literal, $zero:literal, $kind:literal) ),* $(,)?) => {
        match $key {
            $(
                (concat!($fa), $plus, $zero, $kind, true) => format!(concat!("{:", $fa, $plus, $zero, "w$.p$", $kind, "}"), $a, w = $w, p = $p),
                (concat!($fa), $plus, $zero, $kind, false) => format!(concat!("{:", $fa, $plus, $zero, "w$", $kind, "}"), $a, w = $w),
            )*
            _ => panic!("no such format combination {:?}", $key),
        }
    };
}

macro_rules! all_combos {
    ($a:expr, $w:expr, $p:expr, $key:expr) => {
        fmt_arms!($a, $w, $p, $key;
            ("", "", "", ""), ("", "", "", "e"), ("", "", "", "E"),
            ("", "+", "", ""), ("", "+", "", "e"), ("", "+", "", "E"),
            ("", "", "0", ""), ("", "", "0", "e"), ("", "", "0", "E"),
            ("", "+", "0", ""), ("", "+", "0", "e"), ("", "+", "0", "E"),
            ("<", "", "", ""), ("<", "", "", "e"), ("<", "", "", "E"),
            ("<", "+", "", ""), ("<", "+", "", "e"), ("<", "+", "", "E"),
            ("<", "", "0", ""), ("<", "", "0", "e"), ("<", "", "0", "E"),
            ("<", "+", "0", ""), ("<", "+", "0", "e"), ("<", "+", "0", "E"),
            (">", "", "", ""), (">", "", "", "e"), (">", "", "", "E"),
            (">", "+", "", ""), (">", "+", "", "e"), (">", "+", "", "E"),
            (">", "", "0", ""), (">", "", "0", "e"), (">", "", "0", "E"),
            (">", "+", "0", ""), (">", "+", "0", "e"), (">", "+", "0", "E"),
            ("^", "", "", ""), ("^", "", "", "e"), ("^", "", "", "E"),
            ("^", "+", "", ""), ("^", "+", "", "e"), ("^", "+", "", "E"),
            ("^", "", "0", ""), ("^", "", "0", "e"), ("^", "", "0", "E"),
            ("^", "+", "0", ""), ("^", "+", "0", "e"), ("^", "+", "0", "E"),
            ("*<", "", "", ""), ("*<", "", "", "e"), ("*<", "", "", "E"),
            ("*<", "+", "", ""), ("*<", "+", "", "e"), ("*<", "+", "", "E"),
            ("*<", "", "0", ""), ("*<", "", "0", "e"), ("*<", "", "0", "E"),
            ("*<", "+", "0", ""), ("*<", "+", "0", "e"), ("*<", "+", "0", "E"),
            ("*>", "", "", ""), ("*>", "", "", "e"), ("*>", "", "", "E"),
            ("*>", "+", "", ""), ("*>", "+", "", "e"), ("*>", "+", "", "E"),
            ("*>", "", "0", ""), ("*>", "", "0", "e"), ("*>", "", "0", "E"),
            ("*>", "+", "0", ""), ("*>", "+", "0", "e"), ("*>", "+", "0", "E"),
            ("*^", "", "", ""), ("*^", "", "", "e"), ("*^", "", "", "E"),
            ("*^", "+", "", ""), ("*^", "+", "", "e"), ("*^", "+", "", "E"),
            ("*^", "", "0", ""), ("*^", "", "0", "e"), ("*^", "", "0", "E"),
            ("*^", "+", "0", ""), ("*^", "+", "0", "e"), ("*^", "+", "0", "E"),
        )
    };
}

pub fn fmt_with(a: &BigDecimal, fa: &str, plus: &str, zero: &str, kind: &str, width: usize, prec: Option<usize>) -> String {
    let p = prec.unwrap_or(0);
    let key = (fa, plus, zero, kind, prec.is_some());
    all_combos!(a, width, p, key)
}

pub fn exec(op: &str, args: &[&str]) -> String {
    match op {
        "fmt" => {
            // kind fill align plus zero width precision a cfg
            let kind = match args[0] { "display" => "", k => k };
            let fill = args[1]; let align = args[2];
            let fa = if align == "-" { String::new() } else if fill == " " { align.to_string() } else { format!("{}{}", fill, align) };
            let plus = if args[3] == "1" { "+" } else { "" };
            let zero = if args[4] == "1" { "0" } else { "" };
            let width: usize = if args[5] == "-" { 0 } else { args[5].parse().unwrap() };
            let prec: Option<usize> = if args[6] == "-" { None } else { Some(args[6].parse().unwrap()) };
            let a = parse_dec(args[7]).expect("a");
            let text = fmt_with(&a, &fa, plus, zero, kind, width, prec);
            let base = fmt_with(&a, "", "", "", kind, 0, prec);
            format!("{}|{}", text, base)
        }
        _ => panic!("C16: unknown op {}", op),
    }
}

fn emit_case(rng: &mut Rng, a: &BigDecimal, prec: Option<usize>, plain_flags: bool) -> String {
    let kind = *rng.pick(&["display", "display", "e", "E"]);
    let (fill, align, plus, zero, width) = if plain_flags { (" ", "-", 0, 0, "-".to_string()) } else {
        let align = *rng.pick(&["-", "<", ">", "^"]);
        let fill = if align == "-" { " " } else { *rng.pick(&[" ", "*"]) };
        let w = if rng.chance(1, 4) { "-".to_string() } else { format!("{}", rng.below(40)) };
        (fill, align, rng.below(2), rng.below(2), w)
    };
    format!("C16\tfmt\t{}\t{}\t{}\t{}\t{}\t{}\t{}\t{}\t-", kind, fill, align, plus, zero, width,
        prec.map(|p| p.to_string()).unwrap_or("-".to_string()), show(a))
}

pub fn generate(rng: &mut Rng, tier: &str, shard: usize, nshards: usize, out: &mut dyn FnMut(String)) {
    let thorough = tier == "thorough";
    let mut n = 0usize;
    // 1. small scope: |unscaled| < 10^5, scales -3..8, N in 0..9 (complete in thorough, 1/stride slice in quick)
    let stride = if thorough { 1u64 } else { 37 };
    let off = rng.below(stride);
    let mut idx = 0u64;
    for v in -99_999i64..=99_999 {
        for scale in -3..=8i64 {
            idx += 1;
            if idx % stride != off { continue; }
            let a = dec(BigInt::from(v), scale);
            for p in 0..=9usize {
                n += 1;
                if n % nshards != shard { continue; }
                let kind = if (v + p as i64) % 3 == 0 { "e" } else { "display" };
                out(format!("C16\tfmt\t{}\t \t-\t0\t0\t-\t{}\t{}\t-", kind, p, show(&a)));
            }
        }
    }
    // 2. random: up to 300 digits, scales -1100..400, N in 0..1100 incl. around the padding limit, all flag combinations
    let total = if thorough { 1_500_000 } else { 90_000 };
    for _ in 0..total {
        n += 1;
        let keep = n % nshards == shard;
        let max_len = if rng.chance(1, 10) { 300 } else { 30 };
        let len = len_dist(rng, max_len);
        let scale = match rng.below(5) { 0 => rng.range(-1100, 400), 1 => rng.range(-1005, -985), _ => rng.range(-10, 40) };
        // precision: near the number of fraction digits (ties / carries), small, or around the padding limit
        let p: usize = match rng.below(6) {
            0 => rng.below(1100) as usize,
            1 => (1000 + scale.min(0) + rng.range(-3, 3)).max(0) as usize,
            2 => rng.below(4) as usize,
            _ => (scale + rng.range(-(len as i64) - 2, 3)).max(0) as usize,
        };
        let k = (scale - p as i64).max(0) as usize;     // digits that will be cut off
        let int = if rng.chance(1, 30) { BigInt::from(0) } else { crate::c06::gen_cut_number(rng, len.saturating_sub(k.min(len)), k.min(len + 3)) };
        let a = dec(int, scale);
        let prec = if rng.chance(1, 8) { None } else { Some(p) };
        let pf = rng.chance(1, 3);
        let line = emit_case(rng, &a, prec, pf);
        if keep { out(line); }
    }
}
