//! C11: cube root — executor and generator
use crate::c06::MODES;
use crate::c10::ctx;
use crate::gen::*;
use crate::rng::Rng;
use bigdecimal::num_bigint::BigInt;
use bigdecimal::BigDecimal;
use std::str::FromStr;

fn mirror(m: &str) -> &str { match m { "Floor" => "Ceiling", "Ceiling" => "Floor", x => x } }

pub fn exec(op: &str, args: &[&str]) -> String {
    match op {
        "cbrt" => {
            let a = parse_dec(args[1]).expect("a");
            show(&match args[0] { "default" => a.cbrt(), _ => a.cbrt_with_context(&ctx(args[2], args[3])) })
        }
        "mirror" => {
            let a = parse_dec(args[0]).expect("a");
            let x = a.cbrt_with_context(&ctx(args[1], args[2]));
            let y = (-a).cbrt_with_context(&ctx(args[1], args[3]));
            format!("{}|{}", show(&x), show(&y))
        }
        _ => panic!("C11: unknown op {}", op),
    }
}

pub fn gen_cube_arg(rng: &mut Rng, p: u64) -> BigDecimal {
    let scale = rng.range(-2000, 2000);
    let v: BigInt = match rng.below(12) {
        10 | 11 => { // EXACT cube of a root longer than p+4 digits whose dropped tail is 5000..0junk, 000..0junk or 4999..9junk:
            // the digits below the guard digits decide (strictly above / below a tie, barely inexact)
            let head = gen_int_len(rng, p as usize).magnitude().clone();
            let z = 3 + rng.below(6) as usize;
            let junk = 1 + rng.below(999_999);
            let tail = match rng.below(3) { 0 => format!("5{}{}", "0".repeat(z), junk), 1 => format!("0{}{}", "0".repeat(z), junk), _ => format!("4{}{}", "9".repeat(z), junk) };
            let root = BigInt::from_str(&format!("{}{}", head, tail)).unwrap();
            &root * &root * &root }
        0 | 1 => { let l = len_dist(rng, 120); let r = BigInt::from(gen_int_len(rng, l).magnitude().clone()); &r * &r * &r }
        2 | 3 => { // perfect cube +- 1 in a far-away digit
            let l = 1 + rng.below(15) as usize; let r = BigInt::from(gen_int_len(rng, l).magnitude().clone());
            let k = rng.below(40);
            &r * &r * &r * pow10(3 * k) + BigInt::from(if rng.chance(1, 2) { 1 } else { -1 }) }
        4 | 5 => { // root with 5000.. / 4999.. tail after the p-th digit
            let head = gen_int_len(rng, p as usize).magnitude().clone();
            let tail = if rng.chance(1, 2) { "5".to_string() + &"0".repeat(rng.below(20) as usize) } else { "4".to_string() + &"9".repeat(rng.below(20) as usize) };
            let root = BigInt::from_str(&format!("{}{}", head, tail)).unwrap();
            &root * &root * &root + BigInt::from(rng.range(-2, 2)) }
        6 => { let l = (3 * (p as usize + 4) + 1 + rng.below(300) as usize).min(2000); BigInt::from(gen_int_len(rng, l).magnitude().clone()) }
        7 => pow10(rng.below(400)) * BigInt::from(rng.range(1, 9)),
        _ => { let ml = if rng.chance(1, 10) { 2000 } else { 60 }; BigInt::from(gen_int(rng, ml).magnitude().clone()) }
    };
    let v = if v <= BigInt::from(0) { BigInt::from(7) } else { v };
    dec(if rng.chance(1, 2) { -v } else { v }, scale)
}

pub fn generate(rng: &mut Rng, tier: &str, shard: usize, nshards: usize, out: &mut dyn FnMut(String)) {
    let total = if tier == "thorough" { 1_000_000 } else { 70_000 };
    for i in 0..total {
        let keep = i % nshards == shard;
        let p: u64 = match rng.below(6) { 0 => 160, 1 => 1 + rng.below(5), 2 => 1 + rng.below(150), _ => 1 + rng.below(40) };
        let mut a = gen_cube_arg(rng, p);
        let r = rng.below(40);
        if r == 0 { a = dec(BigInt::from(0), rng.range(-30, 30)); }
        if r == 1 { let k = rng.range(0, 20); a = dec(pow10(k as u64), k); }
        // short radicands a few units below / above a perfect cube at the smallest precisions: the shifted integer
        // (3(p+4) digits) then fits a machine word, where a hardware cube root would round to the cube's own root (seeded C11h)
        let mut p = p;
        if r == 2 || r == 3 {
            p = 1 + rng.below(3);
            let l = p as usize + 4;
            let c = BigInt::from(gen_int_len(rng, l).magnitude().clone());
            let d = BigInt::from(*rng.pick(&[1i64, 1, 2, 7, 100, -1]));
            let v = &c * &c * &c - d;
            let v = if v <= BigInt::from(0) { BigInt::from(7) } else { v };
            a = dec(if rng.chance(1, 2) { -v } else { v }, rng.range(-6, 24));
        }
        let (mn, _) = *rng.pick(MODES);
        let do_mirror = rng.chance(1, 8);
        if keep {
            if do_mirror { out(format!("C11\tmirror\t{}\t{}\t{}\t{}", show(&a), p, mn, mirror(mn))); }
            else { out(format!("C11\tcbrt\tctx\t{}\t{}\t{}", show(&a), p, mn)); }
        }
    }
}
