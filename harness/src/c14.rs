//! C14: binary floats — executor and generator
use crate::gen::*;
use crate::rng::Rng;
use bigdecimal::num_bigint::BigInt;
use bigdecimal::num_traits::{FromPrimitive, ToPrimitive};
use bigdecimal::BigDecimal;
use std::convert::TryFrom;

fn render_back(r: Result<BigDecimal, bigdecimal::ParseBigDecimalError>, also: Option<BigDecimal>) -> String {
    match r {
        Ok(d) => {
            // the FromPrimitive route must agree with TryFrom
            assert!(also.as_ref().map(|a| show(a) == show(&d)).unwrap_or(false), "from_f32/from_f64 differs from try_from");
            let back = match d.to_f64() { Some(f) => format!("{}", f.to_bits()), None => "none".to_string() };
            format!("ok:{}|{}", show(&d), back)
        }
        Err(_) => { assert!(also.is_none()); "err|-".to_string() }
    }
}

pub fn exec(op: &str, args: &[&str]) -> String {
    match op {
        "fromf32" => { let f = f32::from_bits(args[0].parse::<u32>().unwrap()); render_back(BigDecimal::try_from(f), BigDecimal::from_f32(f)) }
        "fromf64" => { let f = f64::from_bits(args[0].parse::<u64>().unwrap()); render_back(BigDecimal::try_from(f), BigDecimal::from_f64(f)) }
        "tof64" => {
            let a = parse_dec(args[0]).expect("a");
            let r1 = a.to_f64(); let r2 = a.to_ref().to_f64();
            assert!(r1.map(|f| f.to_bits()) == r2.map(|f| f.to_bits()), "value and reference disagree");
            match r1 { Some(f) => format!("{}", f.to_bits()), None => "none".to_string() }
        }
        // exhaustive sweep of a range of f32 bit patterns against an independent exact formula (thorough tier)
        "f32range" => {
            let lo: u64 = args[0].parse().unwrap(); let hi: u64 = args[1].parse().unwrap();
            let mut bad = 0u64; let mut first = String::new();
            for b in lo..hi {
                let f = f32::from_bits(b as u32);
                let got = BigDecimal::try_from(f).ok();
                let want = exact_f32(b as u32);
                let ok = match (&got, &want) { (Some(g), Some(w)) => g == w && g.to_f64().map(|x| x == f as f64).unwrap_or(false), (None, None) => true, _ => false };
                if !ok { bad += 1; if first.is_empty() { first = format!("{}", b); } }
            }
            format!("{} {}", bad, if first.is_empty() { "-".to_string() } else { first })
        }
        _ => panic!("C14: unknown op {}", op),
    }
}

/// independent exact value of an f32 bit pattern: (-1)^s * m * 2^e on big integers
fn exact_f32(bits: u32) -> Option<BigDecimal> {
    let frac = (bits & 0x7f_ffff) as u64; let ex = ((bits >> 23) & 0xff) as i64; let neg = bits >> 31 == 1;
    if ex == 255 { return None; }
    let (m, e) = if ex == 0 { (frac, -149i64) } else { (frac + (1 << 23), ex - 127 - 23) };
    let mut v = if e >= 0 { dec(BigInt::from(m) * BigInt::from(2).pow(e as u32), 0) } else { dec(BigInt::from(m) * BigInt::from(5).pow((-e) as u32), -e) };
    if neg { v = -v; }
    Some(v)
}

pub fn generate(rng: &mut Rng, tier: &str, shard: usize, nshards: usize, out: &mut dyn FnMut(String)) {
    let thorough = tier == "thorough";
    let mut n = 0usize;
    let mut emit = |line: String, n: &mut usize| { *n += 1; if *n % nshards == shard { out(line); } };
    // every exponent field x {0, 1, max, random...} mantissas, both signs
    let reps = if thorough { 40 } else { 3 };
    for ex in 0..256u32 {
        for sg in 0..2u32 {
            let mut ms = vec![0u32, 1, 0x7f_ffff, 0x40_0000];
            for _ in 0..reps { ms.push(rng.next() as u32 & 0x7f_ffff); }
            for m in ms { emit(format!("C14\tfromf32\t{}", (sg << 31) | (ex << 23) | m), &mut n); }
        }
    }
    for ex in 0..2048u64 {
        for sg in 0..2u64 {
            let mut ms = vec![0u64, 1, (1 << 52) - 1, 1 << 51];
            for _ in 0..reps { ms.push(rng.next() & ((1 << 52) - 1)); }
            for m in ms { emit(format!("C14\tfromf64\t{}", (sg << 63) | (ex << 52) | m), &mut n); }
        }
    }
    // scales whose negation does not fit the i32 exponent of the float parser (tiny values must
    // underflow towards zero, huge ones overflow to infinity), and the i32 boundary itself
    for base in [1i64 << 31, -(1i64 << 31), 3_000_000_000, -3_000_000_000, 1 << 40, -(1 << 40), i64::MAX - 64, i64::MIN + 64] {
        for d in [-40i64, -20, -2, -1, 0, 1, 2, 19, 20, 40] {
            let sc = base + d;
            for l in [1usize, 17, 26, 45, 64] {
                let i = gen_int_len(rng, l);
                if i == BigInt::from(0) { continue; }
                emit(format!("C14\ttof64\t{}", show(&dec(i, sc))), &mut n);
            }
        }
    }
    // the text handed to the float parser is written into a fixed buffer: the longest texts arise from
    // coefficients that keep 43..44 digits after trimming (the digit estimate of a 44-digit number with a
    // small leading digit is 43, so nothing is trimmed) together with a ten-digit exponent
    for len in [25usize, 26, 43, 44, 45, 62, 63, 64, 82] {
        for lead in [1u8, 2, 4, 5, 9] {
            for sc in [999_999_999i64, 1_000_000_000, 1_234_567_890, 2_147_483_646, 2_147_483_647, -999_999_999, -2_147_483_647] {
                let mut digits = String::new();
                digits.push((b'0' + lead) as char);
                for _ in 1..len { digits.push((b'0' + rng.below(10) as u8) as char); }
                let i: BigInt = digits.parse().unwrap();
                let i = if rng.chance(1, 2) { -i } else { i };
                emit(format!("C14\ttof64\t{}", show(&dec(i, sc))), &mut n);
            }
        }
    }
    let total = if thorough { 3_000_000 } else { 150_000 };
    for _ in 0..total {
        match rng.below(3) {
            0 => emit(format!("C14\tfromf64\t{}", rng.next()), &mut n),
            1 => emit(format!("C14\tfromf32\t{}", rng.next() as u32), &mut n),
            _ => {
                // decimals of 1..400 digits with exponents -400..400; halfway cases; around MAX / MIN_POSITIVE / smallest subnormal
                let a = match rng.below(8) {
                    0 => { // halfway between adjacent floats: (2m+1) * 2^(e-1)
                        let f = f64::from_bits((rng.next() & 0x7fff_ffff_ffff_ffff).min(0x7fe0_0000_0000_0000));
                        let g = f64::from_bits(f.to_bits() + 1);
                        match (BigDecimal::try_from(f), BigDecimal::try_from(g)) { (Ok(x), Ok(y)) => (x + y).half(), _ => BigDecimal::from(1) } }
                    1 => { let m = BigDecimal::try_from(f64::MAX).unwrap(); let k = rng.range(-3, 3); m.clone() + m * BigDecimal::new(BigInt::from(k), 16 + rng.range(0, 3)) }
                    2 => { let m = BigDecimal::try_from(f64::MIN_POSITIVE).unwrap(); m * BigDecimal::new(BigInt::from(rng.range(1, 2000)), 3) }
                    3 => { let m = BigDecimal::try_from(f64::from_bits(1)).unwrap(); m * BigDecimal::new(BigInt::from(rng.range(0, 4000)), 3) }
                    4 => dec(gen_int(rng, 400), rng.range(-400, 400)),
                    5 => dec(gen_int(rng, 30), 0),
                    6 => dec(BigInt::from(0), rng.range(-400, 400)),
                    _ => dec(gen_int(rng, 40), rng.range(-340, 340)),
                };
                let a = if rng.chance(1, 2) { -a } else { a };
                emit(format!("C14\ttof64\t{}", show(&a)), &mut n);
            }
        }
    }
    if thorough {
        // all 2^32 f32 bit patterns against the independent exact formula (in-process)
        let chunk = 1u64 << 22;
        let mut lo = 0u64;
        while lo < (1u64 << 32) { emit(format!("C14\tf32range\t{}\t{}", lo, lo + chunk), &mut n); lo += chunk; }
    }
}
